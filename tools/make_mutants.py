#!/venv/bin/python
"""Generate the home-made sensitivity mutants as patch files under /verif/mutants/ from
(file, old, new) replacements against /repo HEAD.  Patches are only ever applied to scratch
worktrees (tools/try_mutant.py, tools/sensitivity.py)."""
import difflib
import json
import os
import subprocess

VERIF = os.path.dirname(os.path.dirname(os.path.abspath(__file__)))
SQ = "aw_datastore/storages/sqlite.py"
PW = "aw_datastore/storages/peewee.py"
MEM = "aw_datastore/storages/memory.py"
DS = "aw_datastore/datastore.py"
MIG = "aw_datastore/migration.py"
CFG = "aw_core/config.py"
QF = "aw_query/functions.py"

M = [
    # name, property, file, old, new
    ("c06_threshold_500", "C06", SQ, "if self.num_uncommitted_statements > 50:", "if self.num_uncommitted_statements > 500:"),
    ("c06_update_bucket_no_commit", "C06", SQ, "        self.conn.execute(sql, (*values, bucket_id))\n        self.commit()\n", "        self.conn.execute(sql, (*values, bucket_id))\n"),
    ("c06_delete_bucket_split", "C06", SQ, "            [bucket_id],\n        )\n        cursor = self.conn.execute(\"DELETE FROM buckets WHERE id = ?\", [bucket_id])", "            [bucket_id],\n        )\n        self.commit()\n        cursor = self.conn.execute(\"DELETE FROM buckets WHERE id = ?\", [bucket_id])"),
    ("c06_nolazy_no_commit", "C06", SQ, "        else:\n            self.commit()\n\n    def buckets", "        else:\n            pass\n\n    def buckets"),
    ("c06_replace_not_counted", "C06", SQ, "        self.conn.execute(query, [starttime, endtime, datastr, event_id, bucket_id])\n        self.conditional_commit(1)", "        self.conn.execute(query, [starttime, endtime, datastr, event_id, bucket_id])"),
    ("c06_peewee_deferred", "C06", PW, "        self.db.connect()\n\n        # Update bucket keys", "        self.db.connect()\n        self.db.begin()\n\n        # Update bucket keys"),
    ("c18_age_1000s", "C18", SQ, "> timedelta(seconds=10):", "> timedelta(seconds=1000):"),
    ("c18_age_branch_removed", "C18", SQ, "            if (datetime.now() - self.last_commit) > timedelta(seconds=10):\n                self.commit()\n", ""),
    ("c18_last_commit_not_refreshed", "C18", SQ, "        self.conn.commit()\n        self.last_commit = datetime.now()\n", "        self.conn.commit()\n"),
    ("c18_delete_no_age", "C18", SQ, "        cursor = self.conn.execute(query, [event_id, bucket_id])\n        self.conditional_commit(1)\n", "        cursor = self.conn.execute(query, [event_id, bucket_id])\n        self.num_uncommitted_statements += 1\n        if self.num_uncommitted_statements > 50:\n            self.commit()\n"),
    ("c02_memory_id_len", "C02", MEM, "event.id = max(int(e.id or 0) for e in self.db[bucket]) + 1", "event.id = len(self.db[bucket])"),
    ("c02_peewee_get_last_asc", "C02", PW, "            .order_by(EventModel.timestamp.desc())\n            .get()", "            .order_by(EventModel.timestamp.asc())\n            .get()"),
    ("c02_sqlite_replace_last_endtime", "C02", SQ, "                        ORDER BY starttime DESC, id DESC LIMIT 1)", "                        ORDER BY endtime DESC, id DESC LIMIT 1)"),
    ("c02_memory_delete_first_match", "C02", MEM, "            self.db[bucket_id].pop(idx)\n            return True", "            self.db[bucket_id].pop(0 if len(self.db[bucket_id]) > 7 else idx)\n            return True"),
    ("c04_sqlite_delete_unscoped", "C04", SQ, "+ \"WHERE id = ? AND bucketrow = (SELECT b.rowid FROM buckets b WHERE b.id = ?)\"\n        )\n        cursor = self.conn.execute(query, [event_id, bucket_id])", "+ \"WHERE id = ? AND ? IS NOT NULL\"\n        )\n        cursor = self.conn.execute(query, [event_id, bucket_id])"),
    ("c04_peewee_delete_unscoped", "C04", PW, "            .where(EventModel.id == event_id)\n            .where(EventModel.bucket == self.bucket_keys[bucket_id])\n            .execute()", "            .where(EventModel.id == event_id)\n            .execute()"),
    ("c04_peewee_upsert_unscoped", "C04", PW, "            if self._get_event(bucket_id, e.id) is not None:\n                self.insert_one(bucket_id, e)", "            self.insert_one(bucket_id, e)"),
    ("c05_no_evict_handle", "C05", DS, "        if bucket_id in self.bucket_instances:\n            del self.bucket_instances[bucket_id]\n", ""),
    ("c05_sqlite_keep_events", "C05", SQ, "        self.conn.execute(\n            \"DELETE FROM events WHERE bucketrow IN (SELECT rowid FROM buckets WHERE id = ?)\",\n            [bucket_id],\n        )\n", ""),
    ("c05_peewee_keep_events", "C05", PW, "            EventModel.delete().where(\n                EventModel.bucket == self.bucket_keys[bucket_id]\n            ).execute()\n", ""),
    ("c05_peewee_stale_keys", "C05", PW, "            ).execute()\n            self.update_bucket_keys()\n        else:\n            raise ValueError(\"Bucket did not exist, could not delete\")", "            ).execute()\n        else:\n            raise ValueError(\"Bucket did not exist, could not delete\")"),
    ("c05_memory_update_overwrites_name", "C05", MEM, "            if name:\n                self._metadata[bucket_id][\"name\"] = name", "            self._metadata[bucket_id][\"name\"] = name or bucket_id"),
    ("c07_replace_last_oldest_memory", "C07", MEM, "last = sorted(self.db[bucket_id], key=lambda e: e.timestamp)[-1]", "last = sorted(self.db[bucket_id], key=lambda e: e.timestamp + e.duration)[-1]"),
    ("c01_sqlite_trunc_ms", "C01", SQ, "        endtime = _EPOCH + timedelta(microseconds=row[2])", "        endtime = _EPOCH + timedelta(milliseconds=int(row[2] / 1000))"),
    ("c01_peewee_round3", "C01", PW, "            duration=event.duration.total_seconds(),\n            datastr=json.dumps(event.data),\n        )", "            duration=round(event.duration.total_seconds(), 3),\n            datastr=json.dumps(event.data),\n        )"),
    ("c01_memory_get_no_deepcopy", "C01", MEM, "        events = events[:limit]\n        # Return\n        return copy.deepcopy(events)", "        events = events[:limit]\n        # Return\n        return [copy.copy(e) for e in events]"),
    ("c01_memory_insert_returns_stored", "C01", MEM, "            self.db[bucket].append(event)\n        return copy.deepcopy(event)", "            self.db[bucket].append(event)\n        return event"),
    ("c03_get_end_round_down", "C03", DS, "            milliseconds = 1 + int(endtime.microsecond / 1000)", "            milliseconds = int(endtime.microsecond / 1000) - 3"),
    ("c03_sqlite_predicate_shift", "C03", SQ, "            AND endtime >= ? AND starttime <= ?\n            ORDER BY", "            AND endtime > ? + 1000000 AND starttime <= ?\n            ORDER BY"),
    ("c03_peewee_prefilter_1h", "C03", PW, "starttime - timedelta(hours=24) <= EventModel.timestamp", "starttime - timedelta(hours=1) <= EventModel.timestamp"),
    ("c03_memory_limit_before_filter", "C03", MEM, "        events = sorted(events, key=lambda k: k[\"timestamp\"])[::-1]\n", "        events = sorted(events, key=lambda k: k[\"timestamp\"])[::-1]\n        if limit > 0 and (starttime or endtime):\n            events = events[: limit + 3]\n"),
    ("c03_peewee_clip_wrong_edge", "C03", PW, "                    e.duration = endtime - e.timestamp", "                    e.duration = endtime - e.timestamp + timedelta(seconds=1)"),
    ("c12_memory_get_shares_data", "C12", MEM, "        events = events[:limit]\n        # Return\n        return copy.deepcopy(events)", "        events = events[:limit]\n        # Return\n        return [copy.copy(e) for e in events]"),
    ("c12_query_bucket_drops_endtime", "C12", QF, "    return datastore[bucketname].get(starttime=starttime, endtime=endtime)", "    return datastore[bucketname].get(starttime=starttime)"),
    ("c12_eventcount_swapped", "C12", QF, "    return datastore[bucketname].get_eventcount(starttime=starttime, endtime=endtime)", "    return datastore[bucketname].get_eventcount(starttime=endtime, endtime=starttime)"),
    ("c14_skip_unnamed", "C14", MIG, "        bucket = buckets[bucket_id]\n", "        bucket = buckets[bucket_id]\n        if not bucket[\"name\"]:\n            continue\n"),
    ("c14_events_twice", "C14", MIG, "        datastore.insert_many(bucket_id, bucket_events)\n", "        datastore.insert_many(bucket_id, bucket_events)\n        if len(bucket_events) > 100:\n            datastore.insert_many(bucket_id, bucket_events[100:])\n"),
    ("c14_wrong_profile", "C14", MIG, "peewee_name = peewee_type + (\"-testing\" if datastore.testing else \"\")", "peewee_name = peewee_type"),
    ("c14_ids_kept", "C14", MIG, "        for event in bucket_events:\n            event.id = None\n", ""),
    ("c20_precedence_flipped", "C20", CFG, "            else:\n                a[key] = b[key]\n        else:\n            a[key] = b[key]", "            else:\n                pass\n        else:\n            a[key] = b[key]"),
    ("c20_no_recursion", "C20", CFG, "            if isinstance(a[key], dict) and isinstance(b[key], dict):\n                _merge(a[key], b[key], path + [str(key)])\n            else:", "            if False:\n                pass\n            else:"),
    ("c20_first_run_uncommented", "C20", CFG, "            f.write(_comment_out_toml(default_config))", "            f.write(default_config)"),
    ("c20_rewrites_existing", "C20", CFG, "        config_toml = tomlkit.parse(config)\n", "        config_toml = tomlkit.parse(config)\n        with open(config_file_path, \"w\") as f:\n            f.write(tomlkit.dumps(config_toml))\n"),
]


def main():
    out = os.path.join(VERIF, "mutants")
    os.makedirs(out, exist_ok=True)
    index = []
    for name, prop, path, old, new in M:
        src = subprocess.run(["git", "-C", "/repo", "show", "HEAD:" + path], capture_output=True, text=True, check=True).stdout
        if src.count(old) != 1:
            print("SKIP %s: pattern occurs %d times" % (name, src.count(old)))
            continue
        dst = src.replace(old, new)
        diff = "".join(difflib.unified_diff(src.splitlines(True), dst.splitlines(True), "a/" + path, "b/" + path))
        with open(os.path.join(out, name + ".patch"), "w") as f:
            f.write(diff)
        index.append({"name": name, "property": prop, "file": path})
    with open(os.path.join(out, "index.json"), "w") as f:
        json.dump(index, f, indent=1)
    print("wrote %d mutants" % len(index))


if __name__ == "__main__":
    main()
