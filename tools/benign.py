#!/venv/bin/python
"""Run every check (quick) against each behaviour-preserving refactor in benign/: all must exit 0.
Also runs the repo's own suite on the refactor (it must pass, or the refactor is not benign)."""
import concurrent.futures as cf
import json
import os
import subprocess
import sys
import tempfile

VERIF = os.path.dirname(os.path.dirname(os.path.abspath(__file__)))
ALL = ["C01", "C02", "C03", "C04", "C05", "C06", "C07", "C12", "C14", "C18", "C20"]


def one(name, checks):
    wt = tempfile.mkdtemp(prefix="benwt-", dir="/tmp")
    os.rmdir(wt)
    subprocess.run(["git", "-C", "/repo", "worktree", "add", "-q", "--detach", wt, "HEAD"], check=True)
    try:
        p = subprocess.run(["git", "-C", wt, "apply", os.path.join(VERIF, "benign", name + ".patch")], capture_output=True, text=True)
        if p.returncode:
            return name, "noapply " + p.stderr[-200:], {}
        env = dict(os.environ, PYTHONPATH=wt, XDG_DATA_HOME=wt + "/.xdg/data", XDG_CONFIG_HOME=wt + "/.xdg/config", XDG_CACHE_HOME=wt + "/.xdg/cache")
        q = subprocess.run(["/venv/bin/python", "-m", "pytest", "-q", "-x", "-p", "no:cacheprovider", "--timeout=900"], cwd=wt, env=env, capture_output=True, text=True)
        suite = q.stdout.strip().splitlines()[-1] if q.stdout.strip() else "?"
        res = {}
        for c in checks:
            env = dict(os.environ, VERIF_REPO=wt, VERIF_JOBS=os.environ.get("SENS_JOBS", "4"))
            p = subprocess.run(["/venv/bin/python", os.path.join(VERIF, "check.py"), c, "--tier", "quick"], capture_output=True, text=True, env=env)
            first = [l for l in p.stdout.splitlines() if l.startswith(("violation:", "HARNESS"))]
            res[c] = (p.returncode, first[0][:300] if first else "")
        return name, suite, res
    finally:
        subprocess.run(["git", "-C", "/repo", "worktree", "remove", "--force", wt], capture_output=True)
        subprocess.run(["rm", "-rf", "/tmp/verif-out-" + os.path.basename(wt)])


def main():
    meta = {m["name"]: m for m in json.load(open(os.path.join(VERIF, "benign", "index.json")))}
    idx = list(meta)
    only = [a for a in sys.argv[1:] if not a.startswith("C")]
    checks = [a for a in sys.argv[1:] if a.startswith("C")] or ALL
    if only:
        idx = [n for n in idx if any(o in n for o in only)]
    bad = 0
    with cf.ThreadPoolExecutor(max_workers=int(os.environ.get("BENIGN_WORKERS", "2"))) as ex:
        for name, suite, res in ex.map(lambda n: one(n, [c for c in checks if c not in meta[n].get("exclude", [])]), idx):
            alarms = {c: r for c, r in res.items() if r[0] != 0}
            print("%-36s suite=[%s] alarms=%s" % (name, suite, alarms if alarms else "none"), flush=True)
            bad += bool(alarms)
    print("refactors with alarms: %d of %d" % (bad, len(idx)))


if __name__ == "__main__":
    main()
