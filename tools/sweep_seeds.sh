#!/bin/bash
# Run every quick check on the unchanged tree for several seeds; print only what is not clean.
# usage: tools/sweep_seeds.sh [seed ...]   (default 1 2 3 4 5); output dirs are scratch (not /verif/evidence)
cd /verif
seeds="${@:-1 2 3 4 5}"
for sd in $seeds; do
  for c in C01 C02 C03 C04 C05 C06 C07 C12 C14 C18 C20; do
    VERIF_SEED=$sd VERIF_OUT=/tmp/sweep-out /venv/bin/python check.py $c > /tmp/sweep-o.txt 2>&1; rc=$?
    if [ $rc -ne 0 ]; then echo "seed $sd $c rc=$rc"; grep -E "violation|HARNESS" /tmp/sweep-o.txt | head -3 | cut -c1-300; fi
  done
  echo "seed $sd done $(date +%H:%M)"
done
rm -rf /tmp/sweep-out
