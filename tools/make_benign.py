#!/venv/bin/python
"""Behaviour-preserving (for the listed properties) refactors of /repo, as patch files under
/verif/benign/.  Every check must stay silent (exit 0) on each of them: tools/benign.py."""
import difflib
import json
import os
import subprocess

VERIF = os.path.dirname(os.path.dirname(os.path.abspath(__file__)))
SQ = "aw_datastore/storages/sqlite.py"
PW = "aw_datastore/storages/peewee.py"
MEM = "aw_datastore/storages/memory.py"
DS = "aw_datastore/datastore.py"

B = [
    ("threshold_30_age_5s", [(SQ, "if self.num_uncommitted_statements > 50:", "if self.num_uncommitted_statements > 30:"), (SQ, "> timedelta(seconds=10):", "> timedelta(seconds=5):")]),
    ("threshold_55", [(SQ, "if self.num_uncommitted_statements > 50:", "if self.num_uncommitted_statements > 55:")]),
    ("commit_every_write", [(SQ, "        if self.enable_lazy_commit:\n            self.num_uncommitted_statements += num_statements", "        if self.enable_lazy_commit and False:\n            self.num_uncommitted_statements += num_statements")]),
    ("datetime_module_import", [
        (SQ, "from datetime import datetime, timedelta, timezone\n", "import datetime as dt\nfrom datetime import timedelta, timezone\n\ndatetime = dt.datetime\n"),
        (SQ, "        self.conn.commit()\n        self.last_commit = datetime.now()", "        self.conn.commit()\n        self.last_commit = dt.datetime.now()"),
        (SQ, "            if (datetime.now() - self.last_commit) > timedelta(seconds=10):", "            if (dt.datetime.now() - self.last_commit) > timedelta(seconds=10):"),
    ]),
    ("age_by_time_monotonic", [
        (SQ, "import sqlite3\n", "import sqlite3\nimport time\n"),
        (SQ, "        self.conn.commit()\n        self.last_commit = datetime.now()", "        self.conn.commit()\n        self.last_commit = datetime.now()\n        self._last_commit_mono = time.monotonic()"),
        (SQ, "            if (datetime.now() - self.last_commit) > timedelta(seconds=10):", "            if time.monotonic() - getattr(self, '_last_commit_mono', 0.0) > 10:"),
    ]),
    ("rename_conn_and_commit", "SED"),
    ("insert_many_inserts_first", [
        (SQ, "        # First, upsert events with id's set\n        events_upsert = [e for e in events if e.id is not None]\n        for e in events_upsert:\n            self.replace(bucket_id, e.id, e)\n\n", ""),
        # (the commit decision must not be taken before the call's first own write: an all-upsert bulk would
        #  otherwise flush older writes first and leave its own writes buffered right after a flush -- C18 reports that)
        (SQ, "        self.conn.executemany(query, event_rows)\n        self.conditional_commit(len(event_rows))", "        if event_rows:\n            self.conn.executemany(query, event_rows)\n            self.conditional_commit(len(event_rows))\n\n        # Then, upsert events with id's set\n        events_upsert = [e for e in events if e.id is not None]\n        for e in events_upsert:\n            self.replace(bucket_id, e.id, e)"),
    ]),
    # (was not benign for C14 while the migration left its last bucket's events buffered; since fix f11005a commits
    #  right after the migration it is benign for every check)
    ("reads_do_not_flush", [
        (SQ, "            limit = -1\n        self.commit()\n        c = self.conn.cursor()", "            limit = -1\n        c = self.conn.cursor()"),
    ]),
    # C14 compares the migrated metadata with the legacy store's (name None there): excluded
    ("sqlite_name_defaults_to_id", [(SQ, "            [\n                bucket_id,\n                name,\n                type_id,", "            [\n                bucket_id,\n                name or bucket_id,\n                type_id,")], {"exclude": ["C14"]}),
    ("memory_name_none", [(MEM, "        if not name:\n            name = bucket_id\n", "")]),
    # not benign for C14: opening an older release's legacy file (rollback journal) with this pragma rewrites its header --
    # "the legacy file itself is left untouched" (the same change is seeded change C14-r3m2); every other check stays silent
    ("peewee_wal", [(PW, "_db = SqliteExtDatabase(None)", "_db = SqliteExtDatabase(None, pragmas={'journal_mode': 'wal'})")], {"exclude": ["C14"]}),
    ("get_rounds_start_only_when_needed", [(DS, "        if starttime:\n            starttime = starttime.replace(", "        if starttime and starttime.microsecond % 1000:\n            starttime = starttime.replace(")]),
    ("delete_bucket_flushes_first", [(SQ, "    def delete_bucket(self, bucket_id: str):\n        self.conn.execute(", "    def delete_bucket(self, bucket_id: str):\n        self.commit()\n        self.conn.execute(")]),
    ("memory_sorted_key_tuple", [(MEM, "        last = sorted(self.db[bucket_id], key=lambda e: e.timestamp)[-1]", "        last = sorted(enumerate(self.db[bucket_id]), key=lambda ie: (ie[1].timestamp, ie[0]))[-1][1]")]),
    ("peewee_get_last_tiebreak_id", [(PW, "            .order_by(EventModel.timestamp.desc())\n            .get()", "            .order_by(EventModel.timestamp.desc(), EventModel.id.desc())\n            .get()"), (PW, "            .order_by(EventModel.timestamp.desc())\n            .limit(limit)", "            .order_by(EventModel.timestamp.desc(), EventModel.id.desc())\n            .limit(limit)")]),
    ("peewee_chunks_of_50", [(PW, "        for chunk in chunks(events_dictlist, 100):", "        for chunk in chunks(events_dictlist, 50):")]),
    ("peewee_atomic_ops", [(PW, "    def delete_bucket(self, bucket_id: str) -> None:\n        if bucket_id in self.bucket_keys:\n            EventModel.delete().where(\n                EventModel.bucket == self.bucket_keys[bucket_id]\n            ).execute()\n            BucketModel.delete().where(\n                BucketModel.key == self.bucket_keys[bucket_id]\n            ).execute()", "    def delete_bucket(self, bucket_id: str) -> None:\n        if bucket_id in self.bucket_keys:\n            with self.db.atomic():\n                EventModel.delete().where(\n                    EventModel.bucket == self.bucket_keys[bucket_id]\n                ).execute()\n                BucketModel.delete().where(\n                    BucketModel.key == self.bucket_keys[bucket_id]\n                ).execute()")]),
    ("memory_filter_then_sort", [(MEM, "        # Sort by timestamp\n        events = sorted(events, key=lambda k: k[\"timestamp\"])[::-1]\n\n        # Filter by date\n        if starttime:\n            events = [e for e in events if starttime <= (e.timestamp + e.duration)]\n        if endtime:\n            events = [e for e in events if e.timestamp <= endtime]\n", "        # Filter by date\n        if starttime:\n            events = [e for e in events if starttime <= (e.timestamp + e.duration)]\n        if endtime:\n            events = [e for e in events if e.timestamp <= endtime]\n\n        # Sort by timestamp\n        events = sorted(events, key=lambda k: k[\"timestamp\"])[::-1]\n")]),
    ("sqlite_executemany_as_loop", [(SQ, "        self.conn.executemany(query, event_rows)\n", "        for event_row in event_rows:\n            self.conn.execute(query, event_row)\n")]),
    ("sqlite_extra_index_and_sync_normal", [(SQ, "        self.conn.execute(\"PRAGMA journal_mode=WAL;\")\n", "        self.conn.execute(\"PRAGMA journal_mode=WAL;\")\n        self.conn.execute(\"PRAGMA synchronous=NORMAL;\")\n        self.conn.execute(\"CREATE INDEX IF NOT EXISTS event_index_start_only ON events(starttime)\")\n")]),
    ("datastore_getitem_no_cache", [(DS, "        if bucket_id not in self.bucket_instances:\n            # If the bucket exists in the database, create an object representation of it\n            if bucket_id in self.buckets():", "        if True:\n            # If the bucket exists in the database, create an object representation of it\n            if bucket_id in self.buckets():")]),
    ("config_comment_out_keepends", [("aw_core/config.py", "    return \"\\n\".join(\n        [\n            \"#\" + line if line.strip() and not line.strip().startswith(\"[\") else line\n            for line in s.split(\"\\n\")\n        ]\n    )", "    out = []\n    for line in s.split(\"\\n\"):\n        stripped = line.strip()\n        if stripped and not stripped.startswith(\"[\"):\n            line = \"#\" + line\n        out.append(line)\n    return \"\\n\".join(out)")]),
    ("heartbeat_merge_max_as_if", [("aw_transform/heartbeats.py", "                last_event.duration = max((last_event.duration, new_duration))", "                if new_duration > last_event.duration:\n                    last_event.duration = new_duration")]),
    ("query_bucket_parse_once", [("aw_query/functions.py", "    _verify_bucket_exists(datastore, bucketname)\n    try:\n        starttime = iso8601.parse_date(namespace[\"STARTTIME\"])\n        endtime = iso8601.parse_date(namespace[\"ENDTIME\"])", "    _verify_bucket_exists(datastore, bucketname)\n    try:\n        starttime, endtime = (iso8601.parse_date(namespace[k]) for k in (\"STARTTIME\", \"ENDTIME\"))")]),
    ("sqlite_commit_retries_when_locked", [(SQ, "        self.conn.commit()\n        self.last_commit = datetime.now()", "        for attempt in range(3):\n            try:\n                self.conn.commit()\n                break\n            except sqlite3.OperationalError:\n                if attempt == 2:\n                    raise\n        self.last_commit = datetime.now()")]),
    ("create_bucket_created_as_utc", [(DS, "        created = created or datetime.now(timezone.utc)\n", "        created = (created or datetime.now(timezone.utc)).astimezone(timezone.utc)\n")]),
    ("peewee_refresh_keys_on_create_and_delete_twice", [(PW, "            datastr=json.dumps(data or {}),\n        )\n        self.update_bucket_keys()", "            datastr=json.dumps(data or {}),\n        )\n        self.update_bucket_keys()\n        self.update_bucket_keys()")]),
    ("sqlite_insert_one_returning", [(SQ, "            + \"VALUES ((SELECT rowid FROM buckets WHERE id = ?), ?, ?, ?)\",\n            [bucket_id, starttime, endtime, datastr],\n        )\n        event.id = c.lastrowid", "            + \"VALUES ((SELECT rowid FROM buckets WHERE id = ?), ?, ?, ?) RETURNING id\",\n            [bucket_id, starttime, endtime, datastr],\n        )\n        event.id = c.fetchone()[0]")]),
    ("sqlite_rejects_with_valueerror", [(SQ, "        self.conn.executemany(query, event_rows)\n        self.conditional_commit(len(event_rows))", "        try:\n            self.conn.executemany(query, event_rows)\n        except sqlite3.IntegrityError as e:\n            raise ValueError(\"Bucket did not exist, could not insert\") from e\n        self.conditional_commit(len(event_rows))")]),
    ("config_first_run_file_trailing_newline", [("aw_core/config.py", "            f.write(_comment_out_toml(default_config))", "            f.write(_comment_out_toml(default_config).rstrip(\"\\n\") + \"\\n\")")]),
    # fourth batch (after round 8): the correct counterparts of seeded changes the new oracles were written for
    ("peewee_trim_min_max", [(PW, "        for e in events:\n            if starttime:\n                if e.timestamp < starttime:\n                    e_end = e.timestamp + e.duration\n                    e.timestamp = starttime\n                    e.duration = e_end - e.timestamp\n            if endtime:\n                if e.timestamp + e.duration > endtime:\n                    e.duration = endtime - e.timestamp\n", "        for e in events:\n            e_end = e.timestamp + e.duration\n            if endtime:\n                e_end = min(e_end, endtime)\n            if starttime:\n                e.timestamp = max(e.timestamp, starttime)\n            e.duration = e_end - e.timestamp\n")]),
    ("datastore_delete_bucket_pop", [(DS, "        if bucket_id in self.bucket_instances:\n            del self.bucket_instances[bucket_id]\n        return self.storage_strategy.delete_bucket(bucket_id)", "        self.bucket_instances.pop(bucket_id, None)\n        return self.storage_strategy.delete_bucket(bucket_id)")]),
    ("migration_commits_itself", [("aw_datastore/migration.py", "    logger.info(\"Migration of peewee v2 to sqlite v1 finished\")", "    datastore.commit()\n    logger.info(\"Migration of peewee v2 to sqlite v1 finished\")")]),
    ("query_verify_returns_id", [("aw_query/functions.py", "def _verify_bucket_exists(datastore, bucketname):\n    if bucketname in datastore.buckets():\n        return\n    else:", "def _verify_bucket_exists(datastore, bucketname):\n    if bucketname in datastore.buckets():\n        return bucketname\n    else:"), ("aw_query/functions.py", "    return datastore[bucketname].get(starttime=starttime, endtime=endtime)", "    return datastore[_verify_bucket_exists(datastore, bucketname)].get(\n        starttime=starttime, endtime=endtime\n    )")]),
    ("config_comment_out_regex", [("aw_core/config.py", "    return \"\\n\".join(\n        [\n            \"#\" + line if line.strip() and not line.strip().startswith(\"[\") else line\n            for line in s.split(\"\\n\")\n        ]\n    )", "    import re\n\n    return re.sub(r\"^(?![^\\S\\n]*$|[^\\S\\n]*\\[)\", \"#\", s, flags=re.MULTILINE)")]),
    ("memory_replace_builds_copy_with_id", [(MEM, "            event = copy.deepcopy(event)\n            event.id = event_id\n            self.db[bucket_id][idx] = event", "            stored = copy.deepcopy(event)\n            stored[\"id\"] = event_id\n            self.db[bucket_id][idx] = stored")]),
]


def main():
    out = os.path.join(VERIF, "benign")
    os.makedirs(out, exist_ok=True)
    index = []
    for entry in B:
        name, reps = entry[0], entry[1]
        opts = entry[2] if len(entry) > 2 else {}
        files = {}
        if reps == "SED":
            src = subprocess.run(["git", "-C", "/repo", "show", "HEAD:" + SQ], capture_output=True, text=True, check=True).stdout
            dst = src.replace("self.conn", "self._connection").replace("def commit(self)", "def _do_commit(self)").replace("self.commit()", "self._do_commit()")
            files[SQ] = (src, dst)
        else:
            ok = True
            for path, old, new in reps:
                src0 = subprocess.run(["git", "-C", "/repo", "show", "HEAD:" + path], capture_output=True, text=True, check=True).stdout
                src, cur = files.get(path, (src0, src0))
                if cur.count(old) != 1:
                    print("SKIP %s: pattern %r occurs %d times" % (name, old[:40], cur.count(old)))
                    ok = False
                    break
                files[path] = (src, cur.replace(old, new))
            if not ok:
                continue
        diff = ""
        for path, (src, dst) in files.items():
            diff += "".join(difflib.unified_diff(src.splitlines(True), dst.splitlines(True), "a/" + path, "b/" + path))
        with open(os.path.join(out, name + ".patch"), "w") as f:
            f.write(diff)
        index.append(dict({"name": name}, **opts))
    json.dump(index, open(os.path.join(out, "index.json"), "w"), indent=1)
    print("wrote %d benign refactors" % len(index))


if __name__ == "__main__":
    main()
