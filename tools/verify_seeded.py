#!/venv/bin/python
"""For every seeded/<id>/ (patch.diff + demo.py from an independent sub-agent): in a scratch
worktree of /repo confirm (1) the patch applies, (2) the existing suite passes with it,
(3) demo.py passes without and fails with it; then (4) run the property's quick check against
the patched worktree.  Writes seeded/<id>/meta.json.  Never touches /repo's working tree."""
import concurrent.futures as cf
import json
import os
import re
import subprocess
import sys
import tempfile

VERIF = os.path.dirname(os.path.dirname(os.path.abspath(__file__)))
SEEDED = os.path.join(VERIF, "seeded")


def sh(cmd, **kw):
    return subprocess.run(cmd, capture_output=True, text=True, **kw)


def env_for(wt, extra=None):
    e = dict(os.environ, PYTHONPATH=wt, XDG_DATA_HOME=wt + "/.xdg/data", XDG_CONFIG_HOME=wt + "/.xdg/config", XDG_CACHE_HOME=wt + "/.xdg/cache", HOME=wt + "/.xdg/home")
    os.makedirs(wt + "/.xdg/home", exist_ok=True)
    os.makedirs(wt + "/.tmp", exist_ok=True)
    e["TMPDIR"] = wt + "/.tmp"  # the demos' temporary directories go away with the worktree
    if extra:
        e.update(extra)
    return e


def rebase_patch(wt, patch):
    """The patch no longer applies textually to /repo HEAD (a later fix touched nearby lines): try a 3-way merge
    in the scratch worktree; on success return the path of the equivalent patch against HEAD."""
    import subprocess as sp

    r = sp.run(["git", "-C", wt, "apply", "--3way", patch], capture_output=True, text=True)
    unmerged = sp.run(["git", "-C", wt, "diff", "--name-only", "--diff-filter=U"], capture_output=True, text=True).stdout.strip()
    out = None
    if r.returncode == 0 and not unmerged:
        d = sp.run(["git", "-C", wt, "diff", "HEAD"], capture_output=True, text=True).stdout
        if d.strip():
            os.makedirs(os.path.join(wt, ".tmp"), exist_ok=True)
            out = os.path.join(wt, ".tmp", "rebased.diff")
            open(out, "w").write(d)
    sp.run(["git", "-C", wt, "reset", "-q", "--hard"], capture_output=True)
    return out


def one(name, extra_checks):
    d = os.path.join(SEEDED, name)
    prop = re.match(r"(C\d+)", name).group(1)
    wt = tempfile.mkdtemp(prefix="seedwt-", dir="/tmp")
    os.rmdir(wt)
    # apply to /repo HEAD if possible, else to the (older) commit the change was written against
    head = None
    patch = os.path.join(d, "patch.diff")
    for base in ("HEAD", "8bb5fbf", "5450e19", "22a8020"):
        sh(["git", "-C", "/repo", "worktree", "add", "-q", "--detach", wt, base])
        if base == "HEAD" and sh(["git", "-C", wt, "apply", "--check", patch]).returncode != 0:
            patch = rebase_patch(wt, patch) or patch
        if sh(["git", "-C", wt, "apply", "--check", patch]).returncode == 0:
            head = sh(["git", "-C", wt, "rev-parse", "--short", "HEAD"]).stdout.strip()
            break
        sh(["git", "-C", "/repo", "worktree", "remove", "--force", wt])
    if head is None:
        return {"id": name, "property": prop, "note": "patch applies to none of HEAD / 5450e19 / 22a8020", "_keep": True}
    meta = {"id": name, "property": prop, "ran": [], "verified_against_repo_commit": head}
    try:
        demo = os.path.join(d, "demo.py")
        p = sh(["/venv/bin/python", demo], env=env_for(wt), cwd=wt, timeout=600)
        meta["demo_without_patch_exit"] = p.returncode
        p = sh(["git", "-C", wt, "apply", patch])
        meta["patch_applies"] = p.returncode == 0
        if p.returncode != 0:
            # written against an earlier /repo HEAD: keep the earlier verification record
            return {"id": name, "property": prop, "note_%s" % head: "patch no longer applies to /repo HEAD %s (the file changed since); earlier verification record kept" % head, "_keep": True}
        p = sh(["/venv/bin/python", "-m", "pytest", "-q", "-p", "no:cacheprovider", "--timeout=900"], env=env_for(wt), cwd=wt, timeout=1800)
        meta["suite_with_patch"] = p.stdout.strip().splitlines()[-1] if p.stdout.strip() else p.stderr[-200:]
        p = sh(["/venv/bin/python", demo], env=env_for(wt), cwd=wt, timeout=600)
        meta["demo_with_patch_exit"] = p.returncode
        meta["demo_with_patch_tail"] = (p.stdout + p.stderr).strip().splitlines()[-1][:300] if (p.stdout + p.stderr).strip() else ""
        for c in ([] if os.environ.get("ONLY_ALSO") else [prop]) + [x for x in extra_checks if x != prop]:
            env = dict(os.environ, VERIF_REPO=wt, VERIF_JOBS=os.environ.get("SENS_JOBS", "4"))
            if c != prop and os.environ.get("ALSO_FRAC"):
                env["VERIF_FRAC"] = os.environ["ALSO_FRAC"]
            q = sh(["/venv/bin/python", os.path.join(VERIF, "check.py"), c, "--tier", "quick"], env=env, timeout=3000)
            first = [l for l in q.stdout.splitlines() if l.startswith("violation:")]
            meta["ran"].append({"cmd": "VERIF_REPO=<patched worktree> check.py %s --tier quick" % c, "exit": q.returncode, "first_violation": first[0][:400] if first else None, "summary": q.stdout.strip().splitlines()[-1][:300] if q.stdout.strip() else q.stderr[-300:]})
        meta["detected_by"] = [r["cmd"].split()[3] for r in meta["ran"] if r["exit"] == 1]
        return meta
    finally:
        sh(["git", "-C", "/repo", "worktree", "remove", "--force", wt])
        sh(["rm", "-rf", "/tmp/verif-out-" + os.path.basename(wt)])


def main():
    names = sorted(n for n in os.listdir(SEEDED) if os.path.isdir(os.path.join(SEEDED, n)))
    args = [a for a in sys.argv[1:] if not a.startswith("--")]
    extra = []
    if "--also" in sys.argv:
        extra = sys.argv[sys.argv.index("--also") + 1].split(",")
        args = [a for a in args if a != ",".join(extra)]
    if args:
        names = [n for n in names if any(a in n for a in args)]
    with cf.ThreadPoolExecutor(max_workers=3) as ex:
        for meta in ex.map(lambda n: one(n, extra), names):
            old = {}
            mp = os.path.join(SEEDED, meta["id"], "meta.json")
            if os.path.exists(mp):
                old = json.load(open(mp))
            if meta.pop("_keep", False):
                meta.pop("ran", None)
            if os.environ.get("ONLY_ALSO") and "ran" in meta and "ran" in old:
                seen = {r["cmd"].split()[3] for r in meta["ran"]}
                meta["ran"] = [r for r in old["ran"] if r["cmd"].split()[3] not in seen] + meta["ran"]
                meta["detected_by"] = [r["cmd"].split()[3] for r in meta["ran"] if r["exit"] == 1]
            old.update(meta)
            json.dump(old, open(mp, "w"), indent=1)
            ok = meta.get("patch_applies") and meta.get("demo_without_patch_exit") == 0 and meta.get("demo_with_patch_exit", 0) != 0 and "passed" in str(meta.get("suite_with_patch")) and "failed" not in str(meta.get("suite_with_patch"))
            print("%-10s valid=%s suite=[%s] demo %s->%s  checks: %s" % (meta["id"], ok, meta.get("suite_with_patch"), meta.get("demo_without_patch_exit"), meta.get("demo_with_patch_exit"), [(r["cmd"].split()[3], r["exit"]) for r in meta["ran"]]), flush=True)
    return 0


if __name__ == "__main__":
    sys.exit(main())
