#!/venv/bin/python
"""Run each home-made mutant (mutants/*.patch) against the quick check of its property, in a
scratch worktree, N at a time.  Reports killed / survived; does the existing suite still pass."""
import concurrent.futures as cf
import json
import os
import subprocess
import sys
import tempfile

VERIF = os.path.dirname(os.path.dirname(os.path.abspath(__file__)))


def one(m, tier, with_suite):
    wt = tempfile.mkdtemp(prefix="mutwt-", dir="/tmp")
    os.rmdir(wt)
    subprocess.run(["git", "-C", "/repo", "worktree", "add", "-q", "--detach", wt, "HEAD"], check=True)
    try:
        patch = m.get("patch") or os.path.join(VERIF, "mutants", m["name"] + ".patch")
        p = subprocess.run(["git", "-C", wt, "apply", patch], capture_output=True, text=True)
        if p.returncode != 0:
            return m["name"], "noapply", p.stderr[-200:], None
        suite = None
        if with_suite:
            env = dict(os.environ, PYTHONPATH=wt, XDG_DATA_HOME=wt + "/.xdg/data", XDG_CONFIG_HOME=wt + "/.xdg/config", XDG_CACHE_HOME=wt + "/.xdg/cache")
            q = subprocess.run(["/venv/bin/python", "-m", "pytest", "-q", "-x", "-p", "no:cacheprovider", "--timeout=900"], cwd=wt, env=env, capture_output=True, text=True)
            suite = q.stdout.strip().splitlines()[-1] if q.stdout.strip() else "?"
        env = dict(os.environ, VERIF_REPO=wt, VERIF_JOBS=os.environ.get("SENS_JOBS", "4"))
        p = subprocess.run(["/venv/bin/python", os.path.join(VERIF, "check.py"), m["property"], "--tier", tier], capture_output=True, text=True, env=env)
        first = [l for l in p.stdout.splitlines() if l.startswith("violation:")]
        return m["name"], p.returncode, (first[0][:230] if first else p.stdout.strip().splitlines()[-1][:230]), suite
    finally:
        subprocess.run(["git", "-C", "/repo", "worktree", "remove", "--force", wt], capture_output=True)
        subprocess.run(["rm", "-rf", "/tmp/verif-out-" + os.path.basename(wt)])


def main():
    tier = "quick"
    only = [a for a in sys.argv[1:] if not a.startswith("--")]
    with_suite = "--suite" in sys.argv
    idx = json.load(open(os.path.join(VERIF, "mutants", "index.json")))
    if only:
        idx = [m for m in idx if any(o in m["name"] or o == m["property"] for o in only)]
    res = []
    with cf.ThreadPoolExecutor(max_workers=4) as ex:
        for r in ex.map(lambda m: one(m, tier, with_suite), idx):
            print("%-38s exit=%s %s %s" % (r[0], r[1], ("[suite: %s]" % r[3]) if r[3] else "", r[2]), flush=True)
            res.append(r)
    killed = sum(1 for r in res if r[1] == 1)
    print("killed %d of %d" % (killed, len(res)))
    return 0


if __name__ == "__main__":
    sys.exit(main())
