#!/venv/bin/python
"""Regenerate DESIGN.md's Appendix F (which checks catch which seeded changes) from seeded/*/meta.json."""
import json
import os
import re

VERIF = os.path.dirname(os.path.dirname(os.path.abspath(__file__)))
DESC = {
    "C01-m1": "memory: next id = len(bucket) (duplicate ids after delete+insert)",
    "C01-m2": "sqlite bulk insert: end computed from duration.seconds (whole days dropped)",
    "C01-m3": "Event.__deepcopy__ copies data one level deep (memory backend shares nested data)",
    "C02-m1": "sqlite replace_last orders by endtime again",
    "C02-m2": "memory: next id = len(bucket)",
    "C02-m3": "peewee delete via delete_by_id, no bucket scope",
    "C03-m1": "memory get_events: dropwhile/takewhile window filter (assumes ends decrease with timestamps)",
    "C03-m2": "sqlite get_events ORDER BY endtime",
    "C03-m3": "peewee _where_range: window end not normalised to UTC",
    "C04-m1": "sqlite replace_last: MAX(id) tie-break not scoped to the bucket",
    "C04-m2": "peewee bulk upsert guard: one SELECT ... IN (...) without bucket filter",
    "C04-m3": "sqlite delete_bucket(missing) rolls back before raising (discards other buckets' buffered writes)",
    "C05-m1": "create_bucket: created.replace(tzinfo=utc) instead of converting",
    "C05-m2": "memory get_metadata: shallow dict() copy (live data dict handed out)",
    "C05-m3": "sqlite update_bucket always writes datastr (resets data when not supplied)",
    "C06a-m1": "sqlite replace_last: conditional_commit(0) (rewrites not counted)",
    "C06a-m2": "sqlite replace = delete + insert (single-event op split by a commit)",
    "C06a-m3": "sqlite bulk insert inside `with self.conn:` (rollback of the buffer on error)",
    "C06b-m1": "sqlite update_bucket: conditional_commit(1) instead of commit()",
    "C06b-m2": "sqlite nolazy: all-upsert bulk returns before the commit",
    "C06b-m3": "peewee bulk upsert = DELETE ... IN + INSERT (crash between loses events)",
    "C07-m1": "memory replace_last: max(timestamp+duration), first among ties",
    "C07-m2": "peewee replace_last as one UPDATE not scoped to the bucket",
    "C07-m3": "sqlite: int() truncation of microseconds in all write paths",
    "C12-m1": "memory get_events returns Event(**e): data shared with stored events",
    "C12-m2": "query(): STARTTIME/ENDTIME via replace(tzinfo=utc)",
    "C12-m3": "query_bucket per-query cache returns shared Event objects",
    "C14-m1": "migration pages legacy bucket in batches of 1000 with an endtime cursor (clips an event per page)",
    "C14-m2": "peewee auto_migrate clamps negative durations on open (legacy file rewritten)",
    "C14-m3": "legacy file detection by prefix match: other profile's file migrated",
    "C18-m1": "(now - last_commit).seconds > 10 (whole days dropped)",
    "C18-m2": "age measured from the oldest uncommitted write",
    "C18-m3": "insert_many: conditional_commit before executemany",
    "C20-m1": "_merge one level deep via dict.update",
    "C20-m2": "lru_cache on parsed defaults, mutated in place by _merge",
    "C20-m3": "existing file with no active keys overwritten by the template",
    "C01-r2m1": "peewee EventModel.json: lru_cache'd decode + shallow copy (nested data shared across reads)",
    "C01-r2m2": "memory insert_many deep-copies the batch as one list (same object twice -> one stored object, duplicate ids)",
    "C01-r2m3": "sqlite MAX_TIMESTAMP = 2038: open-ended listing omits later events",
    "C02-r2m1": "sqlite replace_last rewrites the id cached by the latest insert_one",
    "C02-r2m2": "peewee insert_many decides upsert-vs-insert from events[0].id for the whole list",
    "C02-r2m3": "Bucket.insert unwraps a one-element list onto the single-insert path (sqlite ignores the id)",
    "C03-r2m1": "memory keeps the list sorted on insert, get_events only reverses (replace moves timestamps)",
    "C03-r2m2": "sqlite _timedelta_us drops td.days (24 h events stored with zero length)",
    "C03-r2m3": "peewee clipping: if/elif, an event straddling both edges keeps its end",
    "C04-r2m1": "peewee bucket-key cache never evicted (deleted id lands in the next bucket that re-uses the key)",
    "C04-r2m2": "memory replace stores the caller's own Event object (same object written to two buckets)",
    "C04-r2m3": "sqlite delete_bucket deletes events WHERE rowid = bucket row (wrong column)",
    "C05-r2m1": "Bucket.metadata() cached on the handle; only the registered handle is invalidated",
    "C05-r2m2": "MemoryStorage db/_metadata as class attributes (shared across stores)",
    "C05-r2m3": "sqlite delete_bucket(missing): rollback before raising",
    "C06-r2m1": "sqlite count-flush throttled to once per second",
    "C06-r2m2": "peewee delete_bucket: bucket row first, events second (orphans adopted after a crash)",
    "C06-r2m3": "sqlite chunked bulk insert counts only its last chunk",
    "C07-r2m1": "sqlite _event_to_row drops timedelta.days (merged event > 24 h collapses)",
    "C07-r2m2": "heartbeat_reduce returns early when pulsetime == 0",
    "C07-r2m3": "peewee orders by datetime(timestamp) (fractional seconds dropped)",
    "C12-r2m1": "query_bucket returns [] when endtime <= starttime",
    "C12-r2m2": "memory get_events sorts/reverses the stored list in place (tie order flips per read)",
    "C12-r2m3": "sqlite reads inside `with self.conn:` (a failing read rolls back buffered writes)",
    "C14-r2m1": "peewee shared handle only configured on first use in a process",
    "C14-r2m2": "sqlite buckets.id COLLATE NOCASE (ids differing in case collide during migration)",
    "C14-r2m3": "sqlite reads no longer commit (last migrated bucket's events lost on exit without shutdown)",
    "C18-r2m1": "batched all-upsert bulk skips commit bookkeeping",
    "C18-r2m2": "last_commit in naive UTC, now() in naive local time (host west of UTC)",
    "C18-r2m3": "commit timer shared by all SqliteStorage instances (class attribute)",
    "C20-r2m1": "_merge skips falsy user values (0, false, \"\", [])",
    "C20-r2m2": "config path via Path.with_suffix (app names containing a dot)",
    "C20-r2m3": "user file text cached per (int(mtime), size)",
    "C01-r3m1": "sqlite insert error path: rollback on sqlite3.Error (discards earlier buffered inserts)",
    "C01-r3m2": "Bucket facade: _last_inserted cache serves get_by_id from the caller's object",
    "C01-r3m3": "Bucket.get: end edge truncated to ms instead of rounded up (peewee clips an inside event's microseconds)",
    "C02-r3m1": "Bucket facade: cached event count updated by +len(list) even for upserts",
    "C02-r3m2": "memory get_events: sorted(reverse=True) (ties come back oldest-first, replace_last still newest)",
    "C02-r3m3": "memory id->position index not shifted correctly after delete",
    "C03-r3m1": "sqlite bucket-id->rowid cache for reads never invalidated (re-created bucket reads empty)",
    "C03-r3m2": "Bucket.get: seconds carry lost when rounding the end edge up (end in the last ms of a second)",
    "C03-r3m3": "memory get_eventcount ignores durations again",
    "C04-r3m1": "sqlite rowid cache as class attribute, keyed by bucket id (two store objects)",
    "C04-r3m2": "sqlite update_bucket WHERE id = ? COLLATE NOCASE",
    "C04-r3m3": "memory metadata: shared template dict + in-place data update (two cooperating edits)",
    "C05-r3m1": "Datastore.__getitem__ registers the handle before the existence check raises",
    "C05-r3m2": "sqlite update_bucket commits lazily (conditional_commit)",
    "C05-r3m3": "peewee update_bucket: single UPDATE, missing bucket silently ignored",
    "C06-r3m1": "sqlite conditional_commit tests the threshold before counting the statements just issued",
    "C06-r3m2": "peewee insert_many in a manual BEGIN..COMMIT without rollback (a failed bulk leaves the transaction open)",
    "C06-r3m3": "sqlite statement counter per bucket, transaction shared",
    "C07-r3m1": "Datastore facade newest-event cache not dropped on delete_bucket",
    "C07-r3m2": "sqlite _write helper rolls back on error + reads no longer commit (two cooperating edits)",
    "C07-r3m3": "heartbeat_reduce fast path: no merge when gap >= pulsetime (should be >)",
    "C12-r3m1": "memory get_events clips stored events to the window end in place",
    "C12-r3m2": "Event(data=None) shares one module-level empty dict (annotating queries write into it)",
    "C12-r3m3": "query(): STARTTIME/ENDTIME with timespec='milliseconds'",
    "C14-r3m1": "sqlite bulk-insert rowid memo as class attribute (two profiles migrated in one process)",
    "C14-r3m2": "peewee handle opened with journal_mode=wal (legacy file rewritten on open)",
    "C14-r3m3": "sqlite json.dumps(ensure_ascii=False): unpaired surrogate in legacy data aborts the migration",
    "C18-r3m1": "commit(): last_commit reset in a finally even when the commit raised",
    "C18-r3m2": "last_commit = now on every write (idle timeout instead of age limit)",
    "C18-r3m3": "Bucket.replace_last skips the storage call for a repeated identical event",
    "C20-r3m1": "_merge recurses only into tomlkit Table (inline / out-of-order tables replaced wholesale)",
    "C20-r3m2": "lru_cache on get_config_dir (config home resolved once per process)",
    "C20-r3m3": "lines starting with # dropped from the user's file before parsing (multi-line strings)",
    "C01-r4m1": "memory delete via list.remove(event): Event.__eq__ ignores the id (content-identical events)",
    "C01-r4m2": "sqlite update_bucket via INSERT OR REPLACE (new rowid, the bucket's events orphaned)",
    "C01-r4m3": "peewee JSON with ensure_ascii=False + errors='replace' (unpaired surrogate becomes '?')",
    "C02-r4m1": "Bucket.delete: `if not event_id: return False` swallows id 0 (memory ids start at 0)",
    "C02-r4m2": "peewee replace delegates to insert_one, which keys on event.id, not on the id argument",
    "C02-r4m3": "memory: get_events sorts the stored list in place + next id from the last element (two sites)",
    "C03-r4m1": "memory limit handling: any negative limit other than -1 becomes a slice",
    "C03-r4m2": "sqlite window predicate rewritten with BETWEEN (an event spanning the whole window is missed)",
    "C03-r4m3": "peewee clips only the first and the last returned event",
    "C04-r4m1": "sqlite insert_one as INSERT OR REPLACE with event.id (the same Event object in two buckets)",
    "C04-r4m2": "peewee replace builds the row from event.id instead of the id argument",
    "C04-r4m3": "peewee create_bucket predicts the new key as len(bucket_keys)+1",
    "C05-r4m1": "memory db as defaultdict(list): a stale-handle read re-creates the deleted id",
    "C05-r4m2": "sqlite update_bucket via INSERT OR REPLACE",
    "C05-r4m3": "peewee bucket data serialised with ensure_ascii=False (unpaired surrogate raises)",
    "C06-r4m1": "sqlite PRAGMA journal_mode=MEMORY (pages spilled before COMMIT, no journal: malformed after a crash)",
    "C06-r4m2": "sqlite delete_bucket starts with `WITH ... DELETE`: Python's sqlite3 opens no implicit transaction for it",
    "C06-r4m3": "resumable migration: check_for_migration on every start, buckets present are skipped (deleted ones come back)",
    "C07-r4m1": "sqlite start-up housekeeping: DELETE FROM events WHERE endtime <= starttime (zero-length events)",
    "C07-r4m2": "peewee update_bucket as INSERT OR REPLACE without the key (new rowid, events vanish)",
    "C07-r4m3": "sqlite MAX_TIMESTAMP lowered to year 2262",
    "C12-r4m1": "query_bucket bypasses the Bucket facade (no rounding of the window edges)",
    "C12-r4m2": "query() swaps a window given end-first",
    "C12-r4m3": "query_bucket clips events to the query window itself",
    "C14-r4m1": "buckets.name declared STRING (numeric affinity: '007' becomes 7)",
    "C14-r4m2": "migration opens the first detected file (a backup copy sorts first)",
    "C14-r4m3": "sqlite create_bucket NFC-normalises the bucket id",
    "C18-r4m1": "conditional_commit(now=datetime.now()) default argument frozen at import",
    "C18-r4m2": "sticky _in_bulk flag after a failed insert_many disables conditional_commit",
    "C18-r4m3": "delete/replace return before conditional_commit when rowcount == 0",
    "C20-r4m1": "_merge: a default table is never replaced by a user scalar/array",
    "C20-r4m2": "os.path.expandvars on the user's file",
    "C20-r4m3": "_merge depth guard on a mutable default argument (path list grows across calls)",
    "C01-r5m1": "sqlite overlap test endtime > ? (zero-length event at exactly the epoch / window start missing)",
    "C01-r5m2": "peewee drops top-level data keys whose value is null",
    "C01-r5m3": "sqlite on-open housekeeping de-duplicates content-identical events",
    "C02-r5m1": "memory delete: index -1 for a missing id pops the newest event",
    "C02-r5m2": "memory replace merges data with dict.update",
    "C02-r5m3": "sqlite replace: SET endtime = starttime + ? (right-hand side sees the old start)",
    "C03-r5m1": "sqlite window read split into two scans, LIMIT applied to both",
    "C03-r5m2": "peewee prefilter from MAX(timestamp <= start) (assumes events never overlap)",
    "C03-r5m3": "sqlite on-open clean-up deletes endtime <= starttime (zero-length events, after a reopen)",
    "C04-r5m1": "sqlite bulk insert followed by a table-wide delete of zero/negative-length events",
    "C04-r5m2": "peewee update_bucket: loop variable shadows the addressed bucket's row",
    "C04-r5m3": "Datastore.delete_bucket treats ids with glob characters as fnmatch patterns",
    "C05-r5m1": "peewee update_bucket merges the data dict instead of replacing it",
    "C05-r5m2": "memory update_bucket of a missing bucket raises KeyError",
    "C05-r5m3": "create_bucket lower-cases the hostname",
    "C06-r5m1": "sqlite idle-flush threading.Timer commits from another thread at an arbitrary instant",
    "C06-r5m2": "Datastore drops falsy storage kwargs (enable_lazy_commit=False ignored)",
    "C06-r5m3": "peewee deletes event-less buckets on open",
    "C07-r5m1": "sqlite insert_one shortens earlier events that are still running when the new one starts",
    "C07-r5m2": "peewee drops data keys whose value is None or ''",
    "C07-r5m3": "heartbeat_reduce skips a zero-length heartbeat inside the last event whatever its data",
    "C12-r5m1": "query_bucket clamps the window end to now() when the window straddles the wall clock",
    "C12-r5m2": "query_bucket_eventcount reimplemented as len(query_bucket(...))",
    "C12-r5m3": "QString.parse unescapes backslashes (bucket ids with two consecutive backslashes)",
    "C14-r5m1": "migration drops events that repeat another event's timestamp, duration and data",
    "C14-r5m2": "sqlite create_bucket keeps only truthy columns (name '' becomes NULL)",
    "C14-r5m3": "migration check skipped in the testing profile",
    "C18-r5m1": "re-opened handle's last_commit stays None until its first commit (age rule skipped)",
    "C18-r5m2": "ages of an hour or more treated as a clock jump: timer restarted without committing",
    "C18-r5m3": "zero-duration single inserts exempt from the age rule",
    "C01-r6m1": "Bucket.insert computes now.replace(year=now.year+1): ValueError on 29 February",
    "C01-r6m2": "sqlite insert_one coalesces a new event that starts exactly where the newest equal-data event ends",
    "C01-r6m3": "memory keeps the list sorted (bisect.insort) + next id from the last element (two sites)",
    "C02-r6m1": "memory bisect.insort on insert, reads only reverse; replace still writes in place",
    "C02-r6m2": "sqlite replace_last rewrites every event sharing the latest start instant",
    "C02-r6m3": "peewee bulk upsert via bulk_update (same live id twice in a list: first entry wins)",
    "C03-r6m1": "peewee _where_range early-out for an empty range (count 0 for a zero-width window)",
    "C03-r6m2": "memory get_events fast path for limit == 1 without a start (ignores the window end)",
    "C03-r6m3": "sqlite early-out when the window starts after the end of the last inserted row",
    "C05-r6m1": "peewee create_bucket with explicit key = len(bucket_keys) + 1",
    "C05-r6m2": "sqlite update_bucket skips unchanged rows with a NULL-unsafe condition (name NULL)",
    "C05-r6m3": "memory update_bucket applies a dict keyed by parameter names (type_id instead of type)",
    "C06-r6m1": "sqlite deletes -wal/-shm files older than 60 s on open",
    "C06-r6m2": "sqlite deletions queued in memory, flushed at most operations but not at commit/create/update bucket",
    "C06-r6m3": "atexit hook commits the open transaction at interpreter exit",
    "C07-r6m1": "heartbeat_reduce measures the gap from the previous heartbeat's start, not the merged event's end",
    "C07-r6m2": "Bucket.insert skips a single event that is covered by the newest event (data not compared)",
    "C07-r6m3": "sqlite insert_one extends the newest equal-data row when the new event starts within 1 ms after it",
    "C12-r6m1": "query_bucket returns [] without fetching when get_eventcount(start, end) == 0",
    "C12-r6m2": "query(): everything from # to the end of the line stripped before parsing (ids containing #)",
    "C12-r6m3": "query_bucket_eventcount drops the lower bound when STARTTIME <= bucket created",
    "C14-r6m1": "sqlite bulk insert formats the bucket id into the SQL text (ids with an apostrophe)",
    "C14-r6m2": "migration passes legacy events through heartbeat_reduce(pulsetime=0)",
    "C14-r6m3": "migration reads all events in one query and groups them with groupby without sorting by bucket",
    "C18-r6m1": "Bucket.insert: warn_older_event = True (a pre-read flushes and restarts the timer before every insert)",
    "C18-r6m2": "commit() skipped unless a _dirty flag is set; executemany does not set it",
    "C18-r6m3": "age measured with time.process_time()",
    "C20-r6m1": "_merge walks the default's keys; user-only keys re-added only at the top level",
    "C20-r6m2": "arrays extend the defaults instead of replacing them",
    "C20-r6m3": "changed = changed or _merge(...): later overlapping tables not merged",
    "C01-r7m1": "memory delete walks reversed(events) and pops at -offset (off by one)",
    "C01-r7m2": "sqlite insert_many serialises payloads over all events, zips them with the id-less subset",
    "C01-r7m3": "peewee insert_many: datastr of the previous event re-used for an event with empty data",
    "C02-r7m1": "peewee insert_many picks plain inserts with `event not in events_updates` (Event.__eq__ ignores ids)",
    "C02-r7m2": "sqlite delete raises ValueError when no row matched",
    "C02-r7m3": "memory delete never looks at list position 0",
    "C03-r7m1": "peewee stored endtime column, not maintained by replace/replace_last",
    "C03-r7m2": "peewee trims through filter_period_intersect (assumes events do not overlap)",
    "C03-r7m3": "sqlite paged read (100 rows per statement) with a wrong continuation condition",
    "C04-r7m1": "sqlite bulk upsert as INSERT ... ON CONFLICT(id) DO UPDATE (table-wide conflict target)",
    "C04-r7m2": "Datastore resolves a missing bucket id to the bucket whose display name equals it",
    "C04-r7m3": "peewee delete_bucket also sweeps events of buckets unknown to this handle's key map",
    "C05-r7m1": "sqlite update_bucket: SET columns from a set comprehension, values in declaration order",
    "C05-r7m2": "sqlite delete_bucket issues BEGIN IMMEDIATE (fails while the lazy transaction is open)",
    "C05-r7m3": "Datastore.update_bucket log line runs str.format over the bucket id (ids with braces)",
    "C06-r7m1": "sqlite VACUUM after delete_bucket leaves the connection in autocommit",
    "C06-r7m2": "sqlite enable_lazy_commit = enable_lazy_commit or testing",
    "C06-r7m3": "sqlite delete_bucket deletes events in batches of 2000 with a commit per batch",
    "C07-r7m1": "heartbeat_reduce groups the stream by json.dumps(data) (equal data, different text)",
    "C07-r7m2": "memory max_events=8192: oldest events dropped on overflow",
    "C07-r7m3": "memory update_bucket implemented through create_bucket (bucket emptied)",
    "C12-r7m1": "query_bucket limit argument with a default of 10000",
    "C12-r7m2": "shared _query_period() returns the end instant minus 1 ms",
    "C12-r7m3": "fast path: empty result when the window starts after the newest event's timestamp",
    "C14-r7m1": "'already migrated' marker file shared by both profiles",
    "C14-r7m2": "migration split into two loops, the second reads events with a stale loop variable",
    "C14-r7m3": "peewee buckets() selects an explicit column list without datastr",
    "C18-r7m1": "commit age taken from the event's own end time",
    "C18-r7m2": "age limit stretched to 20x the duration of a slow commit",
    "C18-r7m3": "clock sampled only on every 4th conditional_commit call",
    "C20-r7m1": "first-run template written through save_config_toml (assert on an empty parsed document)",
    "C20-r7m2": "_merge skips overrides that compare equal (True == 1 again)",
    "C20-r7m3": "defaults passed through textwrap.dedent before parsing",
}


def main():
    rows = []
    for name in sorted(os.listdir(os.path.join(VERIF, "seeded"))):
        mp = os.path.join(VERIF, "seeded", name, "meta.json")
        if not os.path.exists(mp):
            continue
        m = json.load(open(mp))
        own = m["property"]
        # enrich meta.json: what the change is and what it needs in order to manifest (from the author's notes)
        notes = ""
        np_ = os.path.join(VERIF, "seeded", name, "notes.md")
        if os.path.exists(np_):
            notes = open(np_).read()
        needs = [l.strip(" -*") for l in notes.splitlines() if re.search(r"(?i)\b(trigger|needs?|only (shows|manifests|triggers|affects)|requires?|manifest)", l)]
        m["breaks_property"] = own
        m["change"] = DESC.get(name, "")
        m["needs_to_manifest"] = " ".join(needs)[:900] if needs else notes[:600]
        m["author"] = "independent sub-agent, round %d; saw only the property text and a private worktree" % (7 if "-r7" in name else 6 if "-r6" in name else 5 if "-r5" in name else 4 if "-r4" in name else 3 if "-r3" in name else 2 if "-r2" in name else 1)
        json.dump(m, open(mp, "w"), indent=1)
        det = []
        first = ""
        for r in m.get("ran", []):
            c = r["cmd"].split()[3]
            if r["exit"] == 1 and c not in det:
                det.append(c)
                if c == own and r.get("first_violation"):
                    mm = re.search(r"oracle=(\w+)", r["first_violation"])
                    first = mm.group(1) if mm else ""
        harness = [r["cmd"].split()[3] for r in m.get("ran", []) if r["exit"] == 2]
        rows.append((name, own, DESC.get(name, ""), "yes (%s)" % first if own in det else "**no**", ", ".join(c for c in det if c != own) or "—", ", ".join(harness) or ""))
    out = ["## Appendix F — seeded changes and the checks that catch them", "",
           "Generated by `tools/appendix_f.py` from `seeded/*/meta.json` (each change applied to a scratch worktree,",
           "`VERIF_REPO=<worktree> check.py <ID> --tier quick`). `-m*` = first round, `-r2m*` … `-r7m*` = second … seventh round (agents were",
           "told which ideas had been used and asked for other mechanisms). \"own check\" = the check of the property the change was written against.", "",
           "| id | change | own check (first oracle) | also caught by |", "|----|--------|--------------------------|----------------|"]
    for name, own, desc, owns, others, harness in rows:
        out.append("| %s | %s | %s | %s%s |" % (name, desc, owns, others, (" (exit 2: %s)" % harness) if harness else ""))
    n = len(rows)
    k = sum(1 for r in rows if r[3].startswith("yes"))
    anyk = sum(1 for r in rows if r[3].startswith("yes") or r[4] != "—")
    out += ["", "Totals: %d seeded changes, %d caught by their own property's check, %d by some check." % (n, k, anyk), ""]
    text = "\n".join(out)
    p = os.path.join(VERIF, "DESIGN.md")
    s = open(p).read()
    i = s.find("## Appendix F — seeded changes")
    if i >= 0:
        s = s[:i].rstrip() + "\n\n"
    else:
        s = s.rstrip() + "\n\n"
    open(p, "w").write(s + text)
    print("Appendix F: %d rows, own %d, any %d" % (n, k, anyk))


if __name__ == "__main__":
    main()
