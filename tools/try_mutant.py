#!/venv/bin/python
"""Apply a patch to a scratch worktree of /repo (never /repo itself), run checks against it via
VERIF_REPO, report exit codes, remove the worktree.

  tools/try_mutant.py <patch.diff> C02 [C04 ...] [--tier quick] [--runs N] [--suite]
"""
import os
import subprocess
import sys
import tempfile

VERIF = os.path.dirname(os.path.dirname(os.path.abspath(__file__)))


def rebase_patch(wt, patch):
    """The patch no longer applies textually to /repo HEAD (a later fix touched nearby lines): try a 3-way merge
    in the scratch worktree; on success return the path of the equivalent patch against HEAD."""
    import subprocess as sp

    r = sp.run(["git", "-C", wt, "apply", "--3way", patch], capture_output=True, text=True)
    unmerged = sp.run(["git", "-C", wt, "diff", "--name-only", "--diff-filter=U"], capture_output=True, text=True).stdout.strip()
    out = None
    if r.returncode == 0 and not unmerged:
        d = sp.run(["git", "-C", wt, "diff", "HEAD"], capture_output=True, text=True).stdout
        if d.strip():
            os.makedirs(os.path.join(wt, ".tmp"), exist_ok=True)
            out = os.path.join(wt, ".tmp", "rebased.diff")
            open(out, "w").write(d)
    sp.run(["git", "-C", wt, "reset", "-q", "--hard"], capture_output=True)
    return out


def main():
    args = sys.argv[1:]
    tier = "quick"
    runs = None
    suite = False
    if "--tier" in args:
        i = args.index("--tier")
        tier = args[i + 1]
        del args[i : i + 2]
    if "--runs" in args:
        i = args.index("--runs")
        runs = args[i + 1]
        del args[i : i + 2]
    if "--suite" in args:
        suite = True
        args.remove("--suite")
    patch, checks = os.path.abspath(args[0]), args[1:]
    wt = tempfile.mkdtemp(prefix="mutwt-", dir="/tmp")
    os.rmdir(wt)
    ok = False
    for base in ("HEAD", "8bb5fbf", "5450e19", "22a8020"):
        subprocess.run(["git", "-C", "/repo", "worktree", "add", "-q", "--detach", wt, base], check=True)
        rb = rebase_patch(wt, patch) if base == "HEAD" and subprocess.run(["git", "-C", wt, "apply", "--check", patch], capture_output=True).returncode != 0 else None
        if rb:
            patch = rb
            print("(patch merged 3-way onto /repo HEAD)")
        if subprocess.run(["git", "-C", wt, "apply", "--check", patch], capture_output=True).returncode == 0:
            ok = True
            if base != "HEAD":
                print("(patch applied to the older commit %s it was written against)" % base)
            break
        subprocess.run(["git", "-C", "/repo", "worktree", "remove", "--force", wt])
    rc_all = {}
    if not ok:
        print("PATCH DOES NOT APPLY to HEAD / 5450e19 / 22a8020")
        return 3
    try:
        p = subprocess.run(["git", "-C", wt, "apply", patch], capture_output=True, text=True)
        if p.returncode != 0:
            print("PATCH DOES NOT APPLY:", p.stderr)
            return 3
        if suite:
            env = dict(os.environ, PYTHONPATH=wt, XDG_DATA_HOME=wt + "/.xdg/data", XDG_CONFIG_HOME=wt + "/.xdg/config", XDG_CACHE_HOME=wt + "/.xdg/cache")
            p = subprocess.run(["/venv/bin/python", "-m", "pytest", "-q", "-p", "no:cacheprovider", "--timeout=900"], cwd=wt, env=env, capture_output=True, text=True)
            print("suite:", p.stdout.strip().splitlines()[-1] if p.stdout.strip() else p.stderr[-300:])
        for c in checks:
            env = dict(os.environ, VERIF_REPO=wt)
            cmd = ["/venv/bin/python", os.path.join(VERIF, "check.py"), c, "--tier", tier]
            if runs:
                cmd += ["--runs", runs]
            p = subprocess.run(cmd, capture_output=True, text=True, env=env)
            rc_all[c] = p.returncode
            lines = [l for l in p.stdout.splitlines() if l.startswith(("violation:", "VIOLATION", "HARNESS", "KNOWN", "NOTE")) or l.startswith(c + ":")]
            print("== %s exit=%d" % (c, p.returncode))
            for l in lines[:8]:
                print("   " + l[:400])
            if p.returncode == 2:
                print(p.stdout[-1500:], p.stderr[-500:])
    finally:
        subprocess.run(["git", "-C", "/repo", "worktree", "remove", "--force", wt])
        subprocess.run(["rm", "-rf", "/tmp/verif-out-" + os.path.basename(wt)])
    print("RESULT", rc_all)
    return 0


if __name__ == "__main__":
    sys.exit(main())
