#!/bin/bash
# Stop background sensitivity jobs started from /verif/tools (matches by command line; run as a
# script so that the caller's own shell command line does not contain the patterns).
for pat in "tools/verify_seeded.py" "tools/benign.py" "tools/sensitivity.py"; do
  for p in $(pgrep -f "$pat"); do
    [ "$p" != "$$" ] && kill "$p" 2>/dev/null
  done
done
sleep 1
for p in $(pgrep -f "/verif/check.py"); do
  [ "$p" != "$$" ] && kill "$p" 2>/dev/null
done
sleep 2
rm -rf /tmp/seedwt-* /tmp/benwt-* /tmp/mutwt-* /tmp/verif-out-*
git -C /repo worktree prune
echo "remaining check processes: $(pgrep -f '/verif/check.py' | wc -l)"
