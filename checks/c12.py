"""C12 -- queries only read: bucket data is unchanged and scoped to the query window.

An analyst runs generated query programs (pipelines over query_bucket / find_bucket using the
mutating built-ins, and programs that raise midway) between other parties' writes, on every
backend.  Oracle: full dump (events and metadata of every bucket) before == after, for
success and for every exception; query_bucket(b) / query_bucket_eventcount(b) inside the
query equal a direct windowed read / count over the query's own start and end instants."""
import json

from sim import actors, gen
from sim.common import Violation, obs_event, short, us_to_dt
from sim.rng import Streams, derive
from sim.runner import Check
from sim.world import BACKENDS, World


def q(s):
    return json.dumps(s, ensure_ascii=False)


class Analyst(actors.Party):
    name = "analyst"

    def __init__(self, r, cfg, buckets):
        super().__init__(r, cfg)
        self.buckets = buckets

    def rules(self, cat):
        r = self.r
        out = []
        for _ in range(r.randrange(1, 4)):
            rule = {"type": "regex", "regex": r.choice(["a", "b", "c|d", "^a$", ".", "x+"])}
            if r.random() < 0.3:
                rule["ignore_case"] = True
            if r.random() < 0.3:
                rule["select_keys"] = [r.choice(["app", "title", "url"])]
            name = [r.choice(["Work", "Media", "Comms"])] + (["Sub"] if r.random() < 0.4 else []) if cat else r.choice(["t1", "t2", "t3"])
            out.append([name, rule])
        return json.dumps(out)

    def source(self):
        r = self.r
        b = r.choice(self.buckets)
        if r.random() < 0.3:
            return "query_bucket(find_bucket(%s))" % q(b[:-1] if len(b) > 1 and r.random() < 0.5 else b)
        return "query_bucket(%s)" % q(b)

    def transform(self, v, w):
        r = self.r
        c = r.randrange(0, 19)
        if c == 0:
            return "categorize(%s, %s)" % (v, self.rules(True))
        if c == 1:
            return "tag(%s, %s)" % (v, self.rules(False))
        if c == 2:
            return "split_url_events(%s)" % v
        if c == 3:
            return "flood(%s)" % v
        if c == 4:
            return "merge_events_by_keys(%s, %s)" % (v, json.dumps(r.choice([["app"], ["app", "title"], ["nokey"], []])))
        if c == 5:
            return "chunk_events_by_key(%s, %s)" % (v, q(r.choice(["app", "title"])))
        if c == 6:
            return "sort_by_timestamp(%s)" % v
        if c == 7:
            return "sort_by_duration(%s)" % v
        if c == 8:
            return "limit_events(%s, %d)" % (v, r.randrange(0, 5))
        if c == 9:
            return "filter_keyvals(%s, \"app\", %s)" % (v, json.dumps(r.choice([["a"], ["a", "b"], []])))
        if c == 10:
            return "exclude_keyvals(%s, \"app\", %s)" % (v, json.dumps(r.choice([["a"], ["b", "c"]])))
        if c == 11:
            return "filter_keyvals_regex(%s, \"app\", %s)" % (v, q(r.choice(["a|b", "^c", "."])))
        if c == 12:
            return "period_union(%s, %s)" % (v, w)
        if c == 13:
            return "filter_period_intersect(%s, %s)" % (v, w)
        if c == 14:
            return "concat(%s, %s)" % (v, w)
        if c == 15:
            return "union_no_overlap(%s, %s)" % (v, w)
        if c == 16:
            return "simplify_window_titles(%s, %s)" % (v, q(r.choice(["title", "app"])))
        if c == 17:
            return "sum_durations(%s)" % v
        return "categorize(tag(%s, %s), %s)" % (v, self.rules(False), self.rules(True))

    def failing(self, v):
        r = self.r
        return r.choice(
            [
                "nosuchfunction(%s)" % v,
                "query_bucket(\"no-such-bucket\")",
                "sort_by_timestamp(1)",
                "limit_events(%s)" % v,
                "undefined_variable",
                "filter_keyvals(%s, 1, 2)" % v,
                "find_bucket(\"zzz-nothing\")",
                "categorize(%s, [[1]])" % v,
                "query_bucket(",
            ]
        )

    def step(self):
        r = self.r
        lat = self.cfg["lat"]
        a = lat["base"] + lat["step"] * r.randrange(-1, lat["n"] + 5) + r.choice([0, 0, 1, -1, 999, 1000, 500_000])
        b = lat["base"] + lat["step"] * r.randrange(-1, lat["n"] + 5) + r.choice([0, 0, 1, -1, 999, 1000, 500_000])
        if r.random() < 0.15:
            a = lat["base"] - 10**12
        if r.random() < 0.15:
            b = lat["base"] + 10**12
        start, end = min(a, b), max(a, b)
        if r.random() < 0.1:
            end = start  # zero-width window: a direct read still returns events spanning that instant
        elif r.random() < 0.05:
            start, end = end, start  # a window given end-first: query and direct read must still agree
        stmts = []
        scope = []
        for k in range(r.randrange(0, 3)):
            bk = r.choice(self.buckets)
            if r.random() < 0.6:
                stmts.append("s%d = query_bucket(%s)" % (k, q(bk)))
                scope.append(["events", "s%d" % k, bk])
            else:
                stmts.append("c%d = query_bucket_eventcount(%s)" % (k, q(bk)))
                scope.append(["count", "c%d" % k, bk])
        stmts.append("e = " + self.source())
        stmts.append("f = " + self.source())
        fail_at = r.randrange(0, 5) if r.random() < 0.3 else None
        for k in range(r.randrange(1, 5)):
            if fail_at == k:
                stmts.append("e = " + self.failing("e"))
            else:
                stmts.append("e = " + self.transform("e", "f"))
        ret = "[" + ", ".join(v for _, v, _ in scope) + "]"
        stmts.append("RETURN = " + ret)
        sep = r.choice([";", ";\n", " ; ", ";\n\n  "])
        prog = sep.join(stmts) + (";" if r.random() < 0.5 else "")
        return {"op": "query", "prog": prog, "scope": scope, "start": start, "soff": gen.offset(r), "end": end, "eoff": gen.offset(r)}


class QueryWorld(World):
    def op_query(self, s):
        from aw_query import query

        st = us_to_dt(s["start"], s.get("soff", 0))
        en = us_to_dt(s["end"], s.get("eoff", 0))
        out = self._call(query, "sim", s["prog"], st, en, self.ds)
        out["window"] = (st, en)
        return out


def url_data(r):
    if r.random() < 0.1:
        return {}
    d = {"app": r.choice("abcd"), "title": r.choice(["(2) a title", "* b", "Cemu - FPS: 59.2 - x", "c", "● d"])}
    if r.random() < 0.5:
        d["url"] = r.choice(["https://www.example.com/p?q=1#f", "http://a.b/c", "ftp://x", "notaurl"])
    if r.random() < 0.15:
        del d["title"]
    return d


class QImporter(actors.Importer):
    def ev(self):
        E = gen.event(self.r, self.cfg["lat"])
        E["data"] = url_data(self.r)
        return E


class QEditor(actors.Editor):
    def ev(self):
        E = gen.event(self.r, self.cfg["lat"])
        E["data"] = url_data(self.r)
        return E


class C12(Check):
    prop = "C12"
    level = "exploration"
    quick_runs = 6000
    thorough_runs = 150000
    rule = (
        "grammar-generated query programs (pipelines over query_bucket/find_bucket with categorize, tag, split_url_events, "
        "flood, merge/chunk, sort/limit/filter, period_union, filter_period_intersect, concat, union_no_overlap, "
        "simplify_window_titles; 30% raise midway: unknown function/bucket/variable, wrong type, arity, syntax) run by "
        "an analyst between importer/editor writes and clean restarts on each backend; full dump of every bucket "
        "before == after; scope statements checked against direct windowed reads/counts; non-trivial = the query touched "
        "a bucket holding >=1 event inside the window and either mutating built-ins ran or the program raised midway; "
        "distinct = (backend, op-kind sequence, program digest)"
    )
    expected_probes = ["query_ok", "query_raised", "query_raised_after_annotation", "scope_events_checked", "scope_count_checked", "scope_nonempty", "mutating_builtin_ran", "restart_clean", "zero_width_query_window", "reversed_query_window", "simulated_now_inside_event_range"]
    assumptions = ["the program space is produced by a grammar-based generator (input generation); the simulation contributes the shared mutable store, the abort point and the interleaving with writers"]
    real_components = Check.real_components + ["aw_query parser/interpreter/functions", "aw_transform built-ins"]

    def make_world(self, run, rundir):
        return QueryWorld(run["backend"], rundir)

    def gen(self, seed, idx, tier):
        lidx, bidx = divmod(idx, len(BACKENDS))
        rs = Streams(derive(seed, self.prop, lidx))
        r = rs["cfg"]
        backend = BACKENDS[bidx]
        nb = r.choice([1, 2, 2, 3])
        buckets = ["aw-watcher-window_h1", "aw-watcher-afk_h#1", "aw-watcher-web_h1"][:nb]
        if rs["eqid"].random() < 0.15:
            # an id containing '=' (round 9: an assignment split at the last '=' cuts the string literal)
            buckets[0] = "aw-watcher-window_host=h1"
        lat = gen.lattice(rs["lat"])
        lat["n"] = min(lat["n"], 12)
        cfg = {"lat": lat, "bulk_max": 8, "upsert_p": 0.1, "never_p": 0.1}
        steps = actors.creates(rs["meta"], buckets, cfg)
        if nb >= 2 and rs["names"].random() < 0.2:
            # an earlier bucket's display name is a later bucket's id (a bucket renamed after the one that replaced it)
            steps[0]["meta"]["name"] = buckets[1]
        pr = rs["populate"]
        for b in buckets:
            n = pr.randrange(0, 7)
            if n:
                evs = []
                for _ in range(n):
                    E = gen.event(pr, lat)
                    E["data"] = url_data(pr)
                    evs.append({"ev": E})
                steps.append({"op": "insertN", "b": b, "evs": evs, "actor": "importer"})
        parties = [Analyst(rs["analyst"], cfg, buckets)]
        for k, b in enumerate(buckets):
            parties.append(QImporter(rs["imp%d" % k], cfg, b))
            parties.append(QEditor(rs["edit%d" % k], cfg, b))
        parties.append(actors.Operator(rs["oper"], {"dirty_p": 0.0}))
        weights = {"analyst": 3.0, "importer": 0.8, "editor": 0.6, "operator": 0.1}
        nsteps = r.choice([2, 4, 8, 15, 30] + ([60, 120] if tier == "thorough" else []))
        steps += actors.schedule(rs["sched"], parties, weights, nsteps)
        run = {"backend": backend, "steps": steps, "lat": lat}
        if r.random() < 0.25:
            # the simulated present lies in the middle of the stored events: some are "in the future", and query
            # windows straddle the wall clock
            run["clock0"] = lat["base"] + lat["step"] * (lat["n"] // 2) + 500
        return run

    MUTATORS = ("categorize(", "tag(", "split_url_events(", "flood(", "simplify_window_titles(", "merge_events_by_keys(")

    def start(self, world, run):
        super().start(world, run)
        self._nt = False
        self._progs = []
        if "clock0" in run:
            world.probes["simulated_now_inside_event_range"] += 1

    def after(self, world, step, out, i):
        op = step["op"]
        if op != "query":
            world.refresh_view()
            return
        pr = world.probes
        before = world.view
        after = world.refresh_view()
        exc = out.get("exc")
        prog = step["prog"]
        self._progs.append(prog)
        mut = any(m in prog for m in self.MUTATORS)
        if exc is None:
            pr["query_ok"] += 1
            if mut:
                pr["mutating_builtin_ran"] += 1
        else:
            pr["query_raised"] += 1
            if mut:
                pr["query_raised_after_annotation"] += 1
        if before != after:
            for b in sorted(set(before) | set(after)):
                if before.get(b) != after.get(b):
                    bb, aa = before.get(b), after.get(b)
                    what = "metadata" if bb and aa and bb["meta"] != aa["meta"] else "events"
                    diff = ""
                    if bb and aa and what == "events":
                        gone = [t for t in bb["events"] if t not in aa["events"]]
                        new = [t for t in aa["events"] if t not in bb["events"]]
                        diff = " gone=%s new=%s" % (short(gone, 200), short(new, 200))
                    raise Violation("frame_after_query", "a %s query changed the %s of bucket %r:%s" % ("failing (%s)" % type(exc).__name__ if exc else "successful", what, b, diff), {"op": op})
        if any(v["events"] for v in after.values()) and (mut or exc is not None):
            self._nt = True
        if exc is not None:
            return
        st, en = out["window"]
        if st == en:
            pr["zero_width_query_window"] += 1
        if st > en:
            pr["reversed_query_window"] += 1
        ret = out["ret"]
        if not isinstance(ret, list) or len(ret) != len(step["scope"]):
            return
        for (kind, var, b), val in zip(step["scope"], ret):
            if kind == "events":
                pr["scope_events_checked"] += 1
                direct = [obs_event(e) for e in world.ds[b].get(starttime=st, endtime=en)]
                got = [obs_event(e) for e in val]
                if direct:
                    pr["scope_nonempty"] += 1
                if got != direct:
                    raise Violation("query_bucket_scope", "query_bucket(%r) over [%s, %s] yielded %s but the direct windowed read gives %s" % (b, st.isoformat(), en.isoformat(), short(got, 260), short(direct, 260)), {"op": op})
            else:
                pr["scope_count_checked"] += 1
                direct = world.ds[b].get_eventcount(starttime=st, endtime=en)
                if val != direct:
                    raise Violation("eventcount_scope", "query_bucket_eventcount(%r) over [%s, %s] = %r but the direct windowed count is %r" % (b, st.isoformat(), en.isoformat(), val, direct), {"op": op})

    def nontrivial(self, world, run, res):
        return self._nt

    def signature(self, world, run, res):
        from sim.common import digest

        return digest([run["backend"], res["opseq"], self._progs])


CHECK = C12()
