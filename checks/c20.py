"""C20 -- effective configuration = defaults overlaid by the user's file.

cfgsim: a configuration file shared between two parties across process starts.  The
application loads at every start (real load_config_toml) and writes the file on first run;
the user writes, edits or deletes the file between starts; upgrades change the defaults.
The overlay law over document pairs is generated input (said plainly in DESIGN.md); the
simulation contributes the file's lifecycle: 'never alters an existing user file', 'when no
file exists it writes one that, on every later load, leaves the configuration equal to the
defaults'."""
import copy
import os
import re
import tomllib

from sim import actors, seams
from sim.common import HarnessError, Violation, canon, digest, short
from sim.rng import Streams, derive
from sim.runner import Check

# Defaults written with dotted keys (`server.host = ...`).  Off: a probe with 0.25 showed that, with several dotted
# sub-tables interleaved, tomlkit itself fails on the unchanged tree (IndexError inside _merge, documents whose
# unwrap() raises KeyAlreadyPresent) -- the root cause of the recorded known finding (grafting into tomlkit
# containers); see DESIGN.md 5.2.  Simple dotted-key documents merge correctly.
DOTTED_P = 0.0

APPS = ["aw-simapp", "aw-server", "aw-server.testing", "aw.watcher.afk", "app v2", "aw-qt"]


# ----------------------------------------------------------------------------- documents
def gen_scalar(r):
    c = r.random()
    if c < 0.3:
        return r.randrange(-3, 6000)
    if c < 0.5:
        return r.choice([0.5, 3.25, -1.5, 1e3, 0.0])
    if c < 0.8:
        return r.choice(["localhost", "", "a b", "ünï", 'q"uote', "#notcomment", "[bracket]", "x = y", "back\\slash", "costs $HOME and ${HOME}"])
    return r.choice([True, False])


ML_TEXTS = ["first line\n# not a comment, a heading\nlast line", "#hashtag\n[not.a.table]\nkey = \"value\"", "a\n\n  b  \n"]


def gen_value(r, depth, multiline=False):
    c = r.random()
    if multiline and c < 0.08:
        return {"ml": r.choice(ML_TEXTS)}  # a multi-line basic string (user documents only)
    if c < 0.7:
        return gen_scalar(r)
    if c < 0.85:
        kind = r.randrange(0, 3)
        n = r.randrange(0, 4)
        if kind == 0:
            return [r.randrange(0, 100) for _ in range(n)]
        if kind == 1:
            return [r.choice(["a", "b", "c,d", "]"]) for _ in range(n)]
        return [[1, 2], [3]][:n]
    return {"inline": True, "v": {r.choice(KEYS): gen_scalar(r) for _ in range(r.randrange(1, 3))}}


KEYS = ["host", "port", "enabled", "path", "cors", "interval", "name", "level", "ключ", "k-1", "k_2"]
TABLES = ["server", "server-testing", "client", "ui", "deep", "opts"]


def gen_doc(r, depth=0, maxdepth=3):
    d = {}
    for k in r.sample(KEYS, r.randrange(0, 4)):
        d[k] = gen_value(r, depth)
    if depth < maxdepth:
        for t in r.sample(TABLES, r.randrange(0, 3 if depth else 4)):
            d[t] = gen_doc(r, depth + 1, maxdepth)
    return d


def mutate_doc(r, d, depth=0, multiline=False):
    """One user/upgrade edit: add, remove, change type, table<->scalar, recurse."""
    d = copy.deepcopy(d)
    c = r.random()
    tables = [k for k, v in d.items() if isinstance(v, dict) and not v.get("inline") and "ml" not in v]
    if tables and c < 0.35 and depth < 3:
        k = r.choice(sorted(tables))
        d[k] = mutate_doc(r, d[k], depth + 1, multiline)
    elif c < 0.55:
        d[r.choice(KEYS)] = gen_value(r, depth, multiline)
    elif c < 0.7 and d:
        del d[r.choice(sorted(d))]
    elif c < 0.8 and d:
        k = r.choice(sorted(d))
        d[k] = gen_scalar(r) if isinstance(d[k], dict) and "ml" not in d[k] else (gen_doc(r, depth + 1, 3) if depth < 3 else gen_scalar(r))
    elif c < 0.9 and depth < 3:
        d[r.choice(TABLES)] = gen_doc(r, depth + 1, 3)
    else:
        for k in sorted(d):
            if not isinstance(d[k], (dict, list)):
                d[k] = gen_scalar(r)
                break
    return d


_INT_LINE = re.compile(r"^([^=#\[\n]+ = )(\d+)(\s*(#.*)?)$")


def tweak_text(r, text):
    """The same document with the last digit of one integer value changed (same length in bytes)."""
    if not text:
        return None
    lines = text.split("\n")
    idx = [i for i, l in enumerate(lines) if _INT_LINE.match(l)]
    if not idx:
        return None
    i = r.choice(idx)
    m = _INT_LINE.match(lines[i])
    n = m.group(2)
    last = "1" if n[-1] == "0" else str(int(n[-1]) - 1)
    lines[i] = m.group(1) + n[:-1] + last + m.group(3)
    return "\n".join(lines)


def _tstr(s):
    out = '"'
    for ch in s:
        if ch == '"':
            out += '\\"'
        elif ch == "\\":
            out += "\\\\"
        elif ch == "\n":
            out += "\\n"
        else:
            out += ch
    return out + '"'


def _tkey(k):
    return k if all(ch.isascii() and (ch.isalnum() or ch in "-_") for ch in k) and k else _tstr(k)


def _tval(v):
    if isinstance(v, bool):
        return "true" if v else "false"
    if isinstance(v, int):
        return str(v)
    if isinstance(v, float):
        return repr(v)
    if isinstance(v, str):
        return _tstr(v)
    if isinstance(v, list):
        return "[" + ", ".join(_tval(x) for x in v) + "]"
    if isinstance(v, dict) and "ml" in v:
        return '"""\n' + v["ml"].replace("\\", "\\\\").replace('"""', '\\"\\"\\"') + '"""'
    if isinstance(v, dict) and v.get("inline"):
        return "{ " + ", ".join("%s = %s" % (_tkey(k), _tval(x)) for k, x in v["v"].items()) + " }"
    raise HarnessError("cannot emit %r" % (v,))


def _is_table(v):
    return isinstance(v, dict) and not v.get("inline") and "ml" not in v


def _dottable(v):
    """A sub-table can be written with dotted keys if it (recursively) holds at least one value and no empty table."""
    return bool(v) and all(_dottable(x) if _is_table(x) else True for x in v.values())


def _dotted_lines(prefix, v):
    out = []
    for k, x in v.items():
        if _is_table(x):
            out += _dotted_lines(prefix + (k,), x)
        else:
            out.append("%s = %s" % (".".join(_tkey(p) for p in prefix + (k,)), _tval(x)))
    return out


def emit(d, r=None, path=(), dotted_p=0.0):
    """TOML text with every value on one line; comments and blank lines sprinkled by r.  With dotted_p some
    sub-tables are written as dotted keys (`server.host = ...`) instead of under a [header]."""
    lines = []
    dotted = set()
    for k, v in d.items():
        if _is_table(v):
            if r is not None and dotted_p and _dottable(v) and r.random() < dotted_p:
                dotted.add(k)
                lines += _dotted_lines((k,), v)
            continue
        if r is not None and r.random() < 0.15:
            lines.append("# a comment about %s" % k)
        elif r is not None and r.random() < 0.08:
            lines.append("")  # an empty line right before a key
        line = "%s = %s" % (_tkey(k), _tval(v))
        if r is not None and r.random() < 0.1:
            line += "  # trailing"
        lines.append(line)
    for k, v in d.items():
        if _is_table(v) and k not in dotted:
            if r is not None and r.random() < 0.5:
                lines.append("")
            lines.append("[" + ".".join(_tkey(p) for p in path + (k,)) + "]")
            sub = emit(v, r, path + (k,), dotted_p)
            if sub:
                lines.append(sub)
    return "\n".join(lines)


def plain(x):
    if hasattr(x, "unwrap"):
        x = x.unwrap()
    if isinstance(x, dict):
        return {str(k): plain(v) for k, v in x.items()}
    if isinstance(x, (list, tuple)):
        return [plain(v) for v in x]
    return x


_MISSING = object()


def _leaves(d, path=()):
    for k, v in d.items():
        if isinstance(v, dict):
            yield from _leaves(v, path + (k,))
        else:
            yield path + (k,), v


def _get(d, path):
    for k in path:
        if not isinstance(d, dict) or k not in d:
            return _MISSING
        d = d[k]
    return d


def overlay(d, u):
    """The reference: user value wherever the user's file sets the key, default otherwise,
    user-only keys kept, recursion only where both sides are tables."""
    out = dict(d)
    for k, v in u.items():
        if k in out and isinstance(out[k], dict) and isinstance(v, dict):
            out[k] = overlay(out[k], v)
        else:
            out[k] = v
    return out


# ----------------------------------------------------------------------------- world
class CfgWorld:
    backend = "config"

    def __init__(self, rundir, defaults, app="aw-simapp"):
        import collections

        self.app = app
        self.rundir = rundir
        self.home = os.path.join(rundir, "home")
        self.defaults = defaults
        self.probes = collections.Counter()
        self.view = None
        self.first_run_defaults = None  # defaults text for which the library wrote the file; None once the user touched it
        os.makedirs(self.home, exist_ok=True)
        seams.assert_in_scratch(self.home)

    def path(self):
        return os.path.join(self.home, "config", "activitywatch", self.app, self.app + ".toml")

    def open(self):
        seams.set_home(self.home)

    def close(self, clean=True):
        seams.set_home(os.path.join(seams.SCRATCH_ROOT, "home"))

    def exec_op(self, s):
        return getattr(self, "op_" + s["op"])(s)

    def op_upgrade(self, s):
        self.defaults = s["defaults"]
        self.probes["upgrade"] += 1
        return {"ret": None, "exc": None}

    def op_user_write(self, s):
        p = self.path()
        os.makedirs(os.path.dirname(p), exist_ok=True)
        seams.assert_in_scratch(p)
        with open(p, "w", encoding="utf-8") as f:
            f.write(s["text"])
        self.first_run_defaults = None
        self.probes["user_write"] += 1
        if s.get("same_length"):
            self.probes["user_edit_same_length"] += 1
        return {"ret": None, "exc": None}

    def op_user_delete(self, s):
        p = self.path()
        if not os.path.exists(p):
            return {"skipped": "no file"}
        os.unlink(p)
        self.first_run_defaults = None
        self.probes["user_delete"] += 1
        return {"ret": None, "exc": None}

    def op_app_start(self, s):
        from aw_core.config import load_config_toml

        p = self.path()
        before = None
        if os.path.isfile(p):
            with open(p, "rb") as f:
                before = f.read()
        try:
            ret = load_config_toml(self.app, self.defaults)
            exc = None
        except Exception as e:
            ret, exc = None, e
        after = None
        if os.path.isfile(p):
            with open(p, "rb") as f:
                after = f.read()
        return {"ret": ret, "exc": exc, "before": before, "after": after}


class C20(Check):
    prop = "C20"
    level = "exploration"
    quick_runs = 24000
    thorough_runs = 800000
    chunk = 100
    rule = (
        "seeded interleavings of application starts (real load_config_toml), upgrades (defaults edited: keys added/removed, "
        "scalar types changed, table<->scalar), user writes/edits (generated TOML: tables nested <=3, overlapping and "
        "disjoint keys, scalars, one-line arrays, inline tables, comments, tricky strings) and user deletions in a fake "
        "XDG_CONFIG_HOME; every start is checked against an independent overlay of tomllib.parse(defaults) by "
        "tomllib.parse(file), the file's bytes before/after, and the first-run clauses; non-trivial = a start found a user "
        "file whose keys overlap the defaults at depth >=1, or a first-run file was re-loaded; distinct = (op-kind sequence, digest of documents)"
    )
    expected_probes = ["start_with_user_file", "start_first_run", "start_after_first_run_same_defaults", "start_after_upgrade_with_library_file", "overlap_nested", "user_only_key", "type_change", "table_vs_scalar", "user_delete", "upgrade", "upgrade_changed_leaf_checked", "user_edit_same_length"]
    assumptions = [
        "user documents are valid TOML with every value on one line (the first-run clause's own restriction; arrays of tables and multi-line values are not generated)",
        "tomllib (stdlib) is the independent reference parser",
    ]
    real_components = ["aw_core.config.load_config_toml / _merge / _comment_out_toml", "aw_core.dirs / platformdirs", "tomlkit"]
    stub_components = ["config directory (XDG_CONFIG_HOME in scratch)", "the user and the application's start sequence (generated actors)"]

    def make_world(self, run, rundir):
        return CfgWorld(rundir, run["defaults"], run.get("app", "aw-simapp"))

    def gen(self, seed, idx, tier):
        rs = Streams(derive(seed, self.prop, idx))
        r = rs["cfg"]
        dd = gen_doc(rs["defaults"])
        defaults = emit(dd, rs["fmt"], dotted_p=DOTTED_P)
        steps = []
        ud = None
        utext = None
        ur = rs["user"]
        n = r.choice([1, 2, 3, 5, 8, 12, 12, 40] + ([80] if tier == "thorough" else []))
        sr = rs["sched"]
        for _ in range(n):
            c = sr.random()
            if c < 0.45:
                steps.append({"op": "app_start"})
            elif c < 0.7:
                if ud is None or ur.random() < 0.4:
                    # start from the defaults' shape (overlapping keys) or from scratch (disjoint keys)
                    ud = mutate_doc(ur, dd) if ur.random() < 0.7 else gen_doc(ur)
                for _k in range(ur.randrange(1, 4)):
                    ud = mutate_doc(ur, ud, multiline=True)
                utext = emit(ud, ur)
                steps.append({"op": "user_write", "text": utext})
            elif c < 0.76 and ud is not None:
                # the smallest possible edit: one digit of one number changes, the file keeps its length
                t = tweak_text(ur, utext)
                if t is not None:
                    utext = t
                    steps.append({"op": "user_write", "text": utext, "same_length": True})
            elif c < 0.8:
                steps.append({"op": "user_delete"})
                ud = None
            else:
                for _k in range(r.randrange(1, 3)):
                    dd = mutate_doc(rs["upgrade"], dd)
                steps.append({"op": "upgrade", "defaults": emit(dd, rs["fmt"], dotted_p=DOTTED_P)})
        steps.append({"op": "app_start"})
        if r.random() < 0.5:
            steps.append({"op": "app_start"})
        return {"backend": "config", "defaults": defaults, "steps": steps, "app": r.choice(APPS)}

    def start(self, world, run):
        world.open()
        self._nt = False
        self._docs = [run["defaults"]]

    def log_outcome(self, world, step, out):
        e = out.get("exc")
        return [type(e).__name__ if e is not None else None, digest(canon(plain(out.get("ret")))) if out.get("ret") is not None else None]

    def after(self, world, step, out, i):
        op = step["op"]
        if op != "app_start":
            if "text" in step:
                self._docs.append(step["text"])
            if "defaults" in step:
                self._docs.append(step["defaults"])
            return
        pr = world.probes
        dtext = world.defaults
        try:
            dref = tomllib.loads(dtext)
        except Exception as e:
            raise HarnessError("generated defaults are not valid TOML: %r\n%s" % (e, dtext))
        before, after = out["before"], out["after"]
        exc = out["exc"]
        if before is not None:
            pr["start_with_user_file"] += 1
            if after != before:
                raise Violation("existing_file_altered", "loading changed the bytes of the existing config file (%d -> %s bytes)" % (len(before), None if after is None else len(after)), {"op": op})
            try:
                uref = tomllib.loads(before.decode("utf-8"))
            except Exception as e:
                raise HarnessError("file on disk is not valid TOML: %r\n%s" % (e, before))
            want = overlay(dref, uref)
            if exc is not None:
                raise Violation("overlay", "load_config_toml raised %r for defaults %s and file %s" % (exc, short(dtext, 200), short(before.decode(), 200)), {"op": op, "kind": "raised " + repr(exc)[:70]})
            got = plain(out["ret"])
            if canon(got) != canon(want):
                raise Violation("first_run_inert" if world.first_run_defaults == dtext else "overlay", "effective config %s differs from defaults overlaid by the file %s (defaults %s; file %s)" % (short(got, 220), short(want, 220), short(dref, 160), short(uref, 160)), {"op": op})
            self._probe_overlap(pr, dref, uref, 0)
            if world.first_run_defaults is not None:
                if world.first_run_defaults == dtext:
                    pr["start_after_first_run_same_defaults"] += 1
                    self._nt = True
                    if canon(got) != canon(dref):
                        raise Violation("first_run_inert", "the file written on first run changes the configuration on a later load: %s instead of the defaults %s" % (short(got, 220), short(dref, 220)), {"op": op})
                else:
                    pr["start_after_upgrade_with_library_file"] += 1
                    # the file the library wrote must stay inert after an upgrade of the defaults: wherever a key
                    # path is a plain value (not a table) in both the old and the new defaults, the new default wins
                    old = tomllib.loads(world.first_run_defaults)
                    for path, newv in _leaves(dref):
                        oldv = _get(old, path)
                        if oldv is _MISSING or isinstance(oldv, dict):
                            continue
                        gv = _get(got, path)
                        if gv is _MISSING or canon(gv) != canon(newv):
                            self._nt = True
                            raise Violation("first_run_inert", "the file written on first run overrides the upgraded default at %s: effective %s, new default %s (old default %s)" % (".".join(path), short(gv), short(newv), short(oldv)), {"op": op})
                        if canon(oldv) != canon(newv):
                            pr["upgrade_changed_leaf_checked"] += 1
        else:
            pr["start_first_run"] += 1
            if exc is not None:
                raise Violation("first_run_file", "first run (no file) raised %r" % (exc,), {"op": op})
            if after is None:
                raise Violation("first_run_file", "no config file exists after the first run", {"op": op})
            got = plain(out["ret"])
            if canon(got) != canon(dref):
                raise Violation("first_run_file", "first run returned %s instead of the defaults %s" % (short(got, 220), short(dref, 220)), {"op": op})
            world.first_run_defaults = dtext

    def _probe_overlap(self, pr, d, u, depth):
        for k, v in u.items():
            if k in d:
                if isinstance(v, dict) and isinstance(d[k], dict):
                    self._probe_overlap(pr, d[k], v, depth + 1)
                else:
                    if depth >= 1:
                        pr["overlap_nested"] += 1
                        self._nt = True
                    if isinstance(v, dict) != isinstance(d[k], dict):
                        pr["table_vs_scalar"] += 1
                    elif type(v) is not type(d[k]):
                        pr["type_change"] += 1
            else:
                pr["user_only_key"] += 1

    def nontrivial(self, world, run, res):
        return self._nt

    def signature(self, world, run, res):
        return digest([res["opseq"], self._docs])

    def simplify_step(self, step):
        return []


CHECK = C20()
