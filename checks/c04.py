"""C04 -- operations addressed to one bucket never change any other bucket.

Self-contained frame oracle: the dump (events and metadata) of every bucket other than the
addressed one, taken immediately before and immediately after each operation, must be
identical; the operation itself may succeed or be rejected."""
from sim import actors, gen
import collections

from sim.common import Violation, expect_tuple, short
from sim.rng import Streams, derive
from sim.runner import Check
from sim.world import BACKENDS


class StaleWriter(actors.Party):
    """Writes through a Bucket handle obtained before the bucket was deleted."""

    name = "stale"

    def __init__(self, r, cfg, buckets):
        super().__init__(r, cfg)
        self.buckets = buckets

    def step(self):
        r = self.r
        b = r.choice(self.buckets)
        if r.random() < 0.35:
            return {"op": "other_store", "b": b, "ev": self.ev()}
        if r.random() < 0.5:
            return {"op": "insert_stale", "b": b, "ev": self.ev()}
        return {"op": "insert_stale", "b": b, "evs": [{"ev": self.ev()} for _ in range(r.randrange(1, 4))]}


class C04(Check):
    prop = "C04"
    level = "exploration"
    quick_runs = 12000
    thorough_runs = 300000
    rule = (
        "seeded multi-party histories (importer/editor/admin/adversary/watcher per bucket, 2-4 buckets on a shared "
        "time lattice so instants coincide across buckets), each executed on one backend; a run is non-trivial when "
        "at least one mutating operation addressed bucket A executed while another bucket held events; distinct = "
        "distinct (backend, executed op-kind sequence)"
    )
    expected_probes = ["foreign_id_used", "frame_checked_with_populated_other", "op_rejected", "tie_endtime_across_buckets", "restart_clean", "observation_deferred", "frame_checked_with_buffered_writes_elsewhere", "insert_through_stale_handle", "event_object_reused", "other_store_in_same_process"]
    assumptions = [
        "callers are serialised (one API call at a time), as aw-server does",
        "the unwindowed read get(limit=-1) and buckets() are faithful observers of a bucket (C02/C05 cover that)",
    ]

    def gen(self, seed, idx, tier):
        rs = Streams(derive(seed, self.prop, idx))
        r = rs["cfg"]
        backend = BACKENDS[idx % len(BACKENDS)]
        nb = r.choice([2, 2, 3, 4])
        buckets = gen.bucket_ids(r, nb, unicode_ok=True)
        lat = gen.lattice(rs["lat"])
        lat["n"] = min(lat["n"], 12)
        cfg = {"lat": lat, "alphabet": r.choice([1, 2, 3]), "bulk_max": r.choice([3, 8, 30, 120]), "upsert_p": 0.2, "foreign_p": r.choice([0.15, 0.3, 0.5]), "never_p": 0.1, "wild_meta": False, "reuse_p": r.choice([0.0, 0.15, 0.4])}
        steps = actors.creates(rs["meta"], buckets, cfg)
        # populate: every bucket gets a few events on the shared lattice
        pr = rs["populate"]
        if pr.random() < 0.25:
            # another store object of the same kind is used first, with the same bucket ids
            for b in pr.sample(buckets, pr.randrange(1, len(buckets) + 1)):
                steps.append({"op": "other_store", "b": b, "ev": gen.event(pr, lat), "actor": "stale"})
        for b in buckets:
            if pr.random() < 0.9:
                n = pr.randrange(1, 6)
                steps.append({"op": "insertN", "b": b, "evs": [{"ev": gen.event(pr, lat, alphabet=cfg["alphabet"])} for _ in range(n)], "actor": "importer"})
        parties = []
        for k, b in enumerate(buckets):
            parties.append(actors.Importer(rs["imp%d" % k], cfg, b))
            parties.append(actors.Editor(rs["edit%d" % k], cfg, b))
            if r.random() < 0.5:
                parties.append(actors.Watcher(rs["watch%d" % k], cfg, b, r.choice([0, 0.5, 1, 5])))
        parties.append(actors.Admin(rs["admin"], cfg, buckets + ["ghost"]))
        parties.append(StaleWriter(rs["stale"], cfg, buckets))
        defer = r.random() < 0.4
        if backend != "memory":
            parties.append(actors.Operator(rs["oper"], {"dirty_p": 0.0}))
        weights = {"importer": 1.0, "editor": 2.0, "admin": r.choice([0.35, 0.35, 1.0]), "watcher": 0.7, "operator": 0.15, "stale": 0.25}
        if defer:
            # rejected operations on A while other buckets hold buffered writes
            weights.update(importer=2.5, editor=1.0, admin=1.5, stale=0.8, watcher=0.3)
        nsteps = r.choice([3, 6, 10, 20, 40] + ([80, 160] if tier == "thorough" else []))
        steps += actors.schedule(rs["sched"], parties, weights, nsteps)
        return {"backend": backend, "steps": steps, "lat": lat, "defer": defer}

    MUTATING = {"insert1", "insertN", "replace", "replace_last", "delete", "update", "delete_bucket", "create", "heartbeat", "insert_stale"}

    def before(self, world, step, i):
        self._before = world.view

    def after(self, world, step, out, i):
        before = self._before
        op = step["op"]
        self._last_exc = out.get("exc")
        # deferred observation: after a plain insert the harness does NOT read (a read would flush the
        # lazily-committing store); the expected contents are carried forward instead, so the next
        # operation on another bucket runs while these acknowledged writes are still buffered
        if self._defer and op in ("insert1", "insertN") and not step.get("reuse_obj") and out.get("exc") is None and all("upsert" not in it and "foreign" not in it for it in step.get("evs", [])):
            evs = [step["ev"]] if op == "insert1" else [it["ev"] for it in step["evs"]]
            self._pending[step["b"]].extend(expect_tuple(E) for E in evs)
            world.probes["observation_deferred"] += 1
            return
        after = world.refresh_view()
        pending, self._pending = self._pending, collections.defaultdict(list)
        if op == "other_store" and not any(pending.values()):
            # traffic on another store object (its own file / memory) concerns no bucket of this store
            if before != after:
                diff = [b for b in sorted(set(before) | set(after)) if before.get(b) != after.get(b)]
                raise Violation("frame_events", "creating and feeding a bucket in ANOTHER store object changed buckets %s of this store" % diff, {"op": op})
            return
        if op not in self.MUTATING:
            if op in ("restart_clean", "new_datastore") or not any(pending.values()):
                return
            a = None
        else:
            a = step["b"]
        if any(v for b, v in pending.items() if b != a):
            world.probes["frame_checked_with_buffered_writes_elsewhere"] += 1
            self._frame_pending(world, op, a, before, after, pending)
            return
        if a is None:
            return
        self._last_exc = out.get("exc")
        if out.get("exc") is not None:
            world.probes["op_rejected"] += 1
        populated_other = False
        for b in sorted(before):
            if b == a:
                continue
            if before[b]["events"]:
                populated_other = True
            if b not in after:
                raise Violation("frame_metadata", "%s on bucket %r made bucket %r disappear" % (op, a, b), {"op": op})
            if before[b]["meta"] != after[b]["meta"]:
                raise Violation("frame_metadata", "%s on bucket %r changed metadata of bucket %r: %s -> %s" % (op, a, b, short(before[b]["meta"]), short(after[b]["meta"])), {"op": op})
            if before[b]["events"] != after[b]["events"]:
                lost = [e for e in before[b]["events"] if e not in after[b]["events"]]
                new = [e for e in after[b]["events"] if e not in before[b]["events"]]
                raise Violation(
                    "frame_events",
                    "%s on bucket %r changed events of bucket %r: gone=%s new=%s" % (op, a, b, short(lost, 200), short(new, 200)),
                    {"op": op, "foreign": "foreign" in step or any("foreign" in it for it in step.get("evs", []) if isinstance(it, dict))},
                )
        for b in sorted(after):
            if b != a and b not in before:
                raise Violation("frame_metadata", "%s on bucket %r made bucket %r appear" % (op, a, b), {"op": op})
        if populated_other:
            world.probes["frame_checked_with_populated_other"] += 1
            self._nontrivial = True
            # rare-condition probe: A's newest end instant coincides with an event elsewhere
            ends_a = {e[1] + e[2] for e in before.get(a, {}).get("events", [])}
            if ends_a:
                m = max(ends_a)
                for b in before:
                    if b != a and any(e[1] + e[2] == m for e in before[b]["events"]):
                        world.probes["tie_endtime_across_buckets"] += 1
                        break

    def _frame_pending(self, world, op, a, before, after, pending):
        """Frame check when other buckets hold acknowledged, not yet observed inserts."""
        for b in sorted(before):
            if b == a:
                continue
            if b not in after:
                raise Violation("frame_metadata", "%s on bucket %r made bucket %r disappear" % (op, a, b), {"op": op})
            if before[b]["meta"] != after[b]["meta"]:
                raise Violation("frame_metadata", "%s on bucket %r changed metadata of bucket %r" % (op, a, b), {"op": op})
            old = {t[0]: t for t in before[b]["events"]}
            now = {t[0]: t for t in after[b]["events"]}
            for i, t in old.items():
                if now.get(i) != t:
                    raise Violation("frame_events", "%s on bucket %r changed events of bucket %r: %s -> %s" % (op, a, b, short(t, 160), short(now.get(i), 160)), {"op": op})
            fresh = sorted(t[1:] for i, t in now.items() if i not in old)
            want = sorted(pending.get(b, []))
            if fresh != want:
                lost = [x for x in want if x not in fresh]
                raise Violation(
                    "frame_events",
                    "%s on bucket %r (%s) lost or altered %d acknowledged, still buffered writes of bucket %r, e.g. %s; unexpected: %s"
                    % (op, a, "rejected" if self._last_exc else "accepted", len(lost), b, short(lost[:1], 160), short([x for x in fresh if x not in want][:1], 160)),
                    {"op": op, "kind": "buffered"},
                )
        self._nontrivial = True

    def start(self, world, run):
        self._nontrivial = False
        self._defer = bool(run.get("defer"))
        self._pending = collections.defaultdict(list)
        self._last_exc = None
        super().start(world, run)

    def after_skip(self, world, step, out, i):
        pass

    def nontrivial(self, world, run, res):
        return self._nontrivial


CHECK = C04()
