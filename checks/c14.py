"""C14 -- migrating a legacy (peewee v2) database to the SQLite store loses nothing.

migsim: two stores and a simulated home directory.  Phase 1: a legacy process (real
PeeweeStorage at its default v2 path, in the normal or the testing profile) executes a
generated history and exits (cleanly or without closing); optionally a legacy file of the
other profile holds different data under the same bucket ids.  Phase 2: first start of the
new default SQLite store, which triggers the migration.  Phase 3: restart of the new store
(no second migration).  Oracle: every legacy bucket present with equal metadata, per bucket
the multiset of (instant, duration, data) equal, after phase 2 and again after phase 3;
the legacy file's bytes unchanged."""
import hashlib
import os

from sim import actors, gen, seams
from sim.common import HarnessError, Violation, short
from sim.rng import Streams, derive
from sim.runner import Check
from sim.world import World


class MigWorld(World):
    def __init__(self, rundir, profile):
        super().__init__("peewee", rundir)
        self.profile = profile
        self.home = os.path.join(rundir, "home")
        self.cur_profile = None
        self.expected = {}  # profile -> dump of the legacy store at exit
        self.legacy_hash = {}
        self.phase = "legacy"
        self.new_dump = None
        self.deleted_after = set()

    def data_dir(self):
        return os.path.join(self.home, "data", "activitywatch", "aw-server")

    def legacy_path(self, testing):
        return os.path.join(self.data_dir(), "peewee-sqlite%s.v2.db" % ("-testing" if testing else ""))

    def open_legacy(self, testing):
        from aw_datastore import Datastore
        from aw_datastore.storages import PeeweeStorage

        seams.set_home(self.home)
        self.ds = Datastore(PeeweeStorage, testing=testing)
        self.cur_profile = testing
        self.handles = {}
        self.refresh_view()

    def close_legacy(self, dirty=False):
        if self.ds is None or self.phase != "legacy":
            return
        exp = self.dump()
        for b in exp:
            # what the legacy store says about the bucket when asked directly (not only what its listing says)
            try:
                from sim.world import meta_canon

                exp[b]["meta"] = meta_canon(self.ds[b].metadata())
            except Exception:
                pass
        self.expected[self.cur_profile] = exp
        if dirty:
            self.probes["legacy_exit_dirty"] += 1
        self._release()
        p = self.legacy_path(self.cur_profile)
        seams.assert_in_scratch(p)
        if os.path.exists(p):
            # The legacy file is what an OLDER release left behind: a rollback-journal database.  Normalise the
            # journal mode (a no-op on the current tree) so that a new release which opens legacy files in another
            # mode is seen to rewrite them.
            import sqlite3 as _sq

            cb, seams.STMT.callback = seams.STMT.callback, None
            try:
                c = _sq.connect(p)
                c.execute("PRAGMA journal_mode=DELETE").fetchall()
                c.close()
            finally:
                seams.STMT.callback = cb
        if not os.path.exists(p):
            raise Violation("bucket_missing", "the legacy store of profile testing=%s did not use its documented default file %s: whatever it holds cannot be found by the migration" % (self.cur_profile, os.path.basename(p)), {"op": "first_start"})
        self.legacy_hash[self.cur_profile] = _sha(p)

    def open(self):
        self.open_legacy(self.profile)

    def op_switch_profile(self, s):
        self.close_legacy()
        self.open_legacy(s["testing"])
        if s["testing"] != self.profile:
            self.probes["distractor_profile_present"] += 1
        return {"ret": None, "exc": None}

    def open_new(self):
        from aw_datastore import Datastore
        from aw_datastore.storages import SqliteStorage

        seams.set_home(self.home)
        self.ds = Datastore(SqliteStorage, testing=self.profile)
        self.handles = {}

    def op_first_start(self, s):
        if self.phase != "legacy":
            return {"skipped": "already migrated"}
        if self.cur_profile != self.profile:
            self.close_legacy()
            self.open_legacy(self.profile)
        self.close_legacy(dirty=s.get("dirty", False))
        self.phase = "new"
        out = self._call(self.open_new)
        if out["exc"] is None and s.get("idle_exit"):
            # the process that migrated is stopped before it served a single call (no read, hence no flush); the
            # library has no shutdown call, so this is an ordinary exit.  The next process must find everything.
            self.probes["first_process_exits_before_any_call"] += 1
            self._release()
            end_of_process()
            out = self._call(self.open_new)
        if out["exc"] is None:
            self.new_dump = self.dump()
        return out

    def op_legacy_backup(self, s):
        """The user once copied the legacy database aside (peewee-sqlite[-testing].v2.backup.db); the live legacy
        store has moved on since.  The migration must read the live file."""
        if self.phase != "legacy" or self.ds is None:
            return {"skipped": "no legacy store open"}
        import shutil as _sh

        prof = self.cur_profile
        self.flush_legacy()
        src = self.legacy_path(prof)
        if not os.path.exists(src):
            return {"skipped": "no legacy file yet"}
        dst = src[: -len(".db")] + ".backup.db"
        seams.assert_in_scratch(dst)
        _sh.copyfile(src, dst)
        self.probes["legacy_backup_copy_beside"] += 1
        return {"ret": None, "exc": None}

    def flush_legacy(self):
        st = getattr(self.ds, "storage_strategy", None)
        db = getattr(st, "db", None)
        if db is not None:
            try:
                db.close()
                db.connect()
            except Exception:
                pass

    def op_new_delete_bucket(self, s):
        """The user deletes one of the migrated buckets in the new store."""
        if self.phase != "new" or self.ds is None:
            return {"skipped": "no new store"}
        ids = sorted(self.expected.get(self.profile, {}))
        if not ids:
            return {"skipped": "nothing migrated"}
        b = ids[s["k"] % len(ids)]
        out = self._call(self.ds.delete_bucket, b)
        if out["exc"] is None:
            del self.expected[self.profile][b]
            self.deleted_after.add(b)
            self.new_dump = self.dump()
            self.probes["migrated_bucket_deleted_then_restart"] += 1
        return out

    def op_first_start_other(self, s):
        """The same process now also starts the new store of the OTHER profile (a tool that migrates both)."""
        other = not self.profile
        if self.phase != "new" or other not in self.expected or self.ds is None:
            return {"skipped": "no other-profile legacy store"}
        main_dump = self.new_dump
        st = getattr(self.ds, "storage_strategy", None)
        c = getattr(st, "conn", None)
        if c is not None:
            st.commit()
            c.close()  # note: no process boundary -- process-global state is deliberately NOT reset
        self.ds = None
        self.profile = other
        out = self._call(self.open_new)
        if out["exc"] is None:
            self.new_dump = self.dump()
        self.probes["both_profiles_migrated_in_one_process"] += 1
        return out

    def op_restart_new(self, s):
        if self.phase != "new" or self.ds is None:
            return {"skipped": "no new store"}
        if s.get("dirty"):
            self.probes["new_store_exit_without_shutdown"] += 1
            self._release()
        else:
            self.close(clean=True)
        out = self._call(self.open_new)
        if out["exc"] is None:
            self.new_dump = self.dump()
        return out

    def close(self, clean=True):
        super().close(clean=clean and self.phase == "new")
        end_of_process()
        seams.set_home(os.path.join(seams.SCRATCH_ROOT, "home"))


def end_of_process():
    """All simulated processes of this run are over: the process-global peewee handle the migration left
    open (the library never closes it) must not leak into the next run's simulated processes."""
    try:
        from aw_datastore.storages import peewee as pw

        db = getattr(pw, "_db", None)
        if db is not None:
            if not db.is_closed():
                db.close()
            db.init(None)
    except Exception:
        pass


def _sha(p):
    with open(p, "rb") as f:
        return hashlib.sha256(f.read()).hexdigest()


class C14(Check):
    prop = "C14"
    level = "exploration"
    quick_runs = 3000
    thorough_runs = 150000
    chunk = 25
    rule = (
        "seeded legacy histories on the real PeeweeStorage at its default v2 path (1-4 buckets with unicode ids, data dicts, "
        "names given/omitted, single and bulk inserts so events carry ids, deletes so ids have holes, replaces; wild "
        "instants/durations/JSON), clean or unclosed exit, optional legacy file of the other profile with different content "
        "under the same bucket ids; then first start and a restart of the default SqliteStorage in the same fake home; "
        "non-trivial = legacy store held >=1 bucket with >=1 event; distinct = (profile, op-kind sequence, events per bucket)"
    )
    expected_probes = ["legacy_events_migrated", "legacy_bucket_with_data", "legacy_bucket_name_omitted", "distractor_profile_present", "legacy_exit_dirty", "id_holes", "profile_testing", "profile_normal", "unicode_bucket_id", "restart_new_checked", "legacy_bucket_over_1000_events", "legacy_negative_duration", "new_store_exit_without_shutdown", "bucket_ids_differ_in_case", "both_profiles_migrated_in_one_process", "legacy_unpaired_surrogate", "migrated_bucket_deleted_then_restart", "legacy_backup_copy_beside", "first_process_exits_before_any_call"]
    assumptions = ["the data directory is found through XDG_DATA_HOME (platformdirs); the harness asserts every database path lies inside the run's scratch home"]
    real_components = ["PeeweeStorage (legacy store at default path)", "SqliteStorage (new store at default path)", "aw_datastore.migration", "aw_core.dirs / platformdirs", "SQLite engine", "peewee ORM"]
    stub_components = ["home directory (XDG_* in scratch)", "loggers", "the legacy client (generated history)"]

    def make_world(self, run, rundir):
        return MigWorld(rundir, run["profile"])

    def gen(self, seed, idx, tier):
        rs = Streams(derive(seed, self.prop, idx))
        r = rs["cfg"]
        profile = bool(idx % 2)
        nb = r.choice([1, 2, 3, 4])
        buckets = gen.bucket_ids(r, nb, unicode_ok=True)
        lat = gen.lattice(rs["lat"])
        cfg = {"lat": lat, "alphabet": 3, "bulk_max": r.choice([3, 10, 40, 150]), "upsert_p": 0.1, "never_p": 0.05, "wild": True, "wild_p": 0.5, "wild_meta": True}
        steps = []
        if r.random() < 0.4:
            # the other profile's legacy store: same ids, different content
            dr = rs["distractor"]
            steps.append({"op": "switch_profile", "testing": not profile})
            # created in the opposite order, so that the same bucket id sits at a different row in the two stores
            steps += actors.creates(dr, list(reversed(buckets))[: dr.randrange(1, nb + 1)], cfg)
            for b in buckets:
                if dr.random() < 0.7:
                    steps.append({"op": "insertN", "b": b, "evs": [{"ev": gen.event(dr, lat)} for _ in range(dr.randrange(1, 5))]})
            steps.append({"op": "switch_profile", "testing": profile})
        cr = actors.creates(rs["meta"], buckets[: r.randrange(0, nb + 1)] if r.random() < 0.15 else buckets, cfg)
        for c_ in cr:
            if rs["emptyname"].random() < 0.08:
                c_["meta"]["name"] = ""  # legacy data is whatever it is
        steps += cr
        parties = []
        for k, b in enumerate(buckets):
            parties.append(actors.Importer(rs["imp%d" % k], cfg, b))
            parties.append(actors.Editor(rs["edit%d" % k], cfg, b))
        weights = {"importer": 2.0, "editor": 0.8}
        backup_at = r.randrange(0, 6) if r.random() < 0.15 else None
        nsteps = r.choice([0, 1, 3, 6, 12, 25] + ([50, 100] if tier == "thorough" else []))
        sched = [s for s in actors.schedule(rs["sched"], parties, weights, nsteps) if s["op"] != "replace_last"]
        if backup_at is not None:
            sched.insert(min(backup_at, len(sched)), {"op": "legacy_backup"})
        steps += sched
        br = rs["big"]
        if br.random() < 0.08:
            # a large legacy bucket (any number of events): one or more bulk loads of hundreds to thousands
            b = br.choice(buckets)
            for _ in range(br.randrange(1, 4)):
                n = br.choice([300, 700, 1100, 1500])
                steps.append({"op": "insertN", "b": b, "evs": [{"ev": {"ts": lat["base"] + k * 1_000_000 + br.randrange(0, 1000) * 1000, "off": 0, "dur": 1_000_000, "data": {"n": k}}} for k in range(n)]})
        nr = rs["neg"]
        if nr.random() < 0.15:
            # legacy data is whatever it is: events with a negative duration are legal Event values
            b = nr.choice(buckets)
            steps.append({"op": "insertN", "b": b, "evs": [{"ev": {"ts": gen.lat_ts(nr, lat), "off": 0, "dur": -nr.choice([1, 1000, 1_500_000, 60_000_000]), "data": {"neg": True}}} for _ in range(nr.randrange(1, 4))]})
        sr2 = rs["surrogate"]
        if sr2.random() < 0.12:
            # a window title cut in the middle of an emoji: an unpaired surrogate is a legal str and legal JSON
            b = sr2.choice(buckets)
            steps.append({"op": "insert1", "b": b, "ev": {"ts": gen.lat_ts(sr2, lat), "off": 0, "dur": 1_000_000, "data": {"title": "cut here \ud83d", "app": "x"}}})
        steps.append({"op": "first_start", "dirty": r.random() < 0.3})
        if rs["idle"].random() < 0.25:
            steps[-1]["idle_exit"] = True
        # the library has no shutdown call: a process that migrated, served reads and exited without ceremony
        # is the ordinary lifecycle, so half of the restarts abandon the connection instead of flushing it
        if r.random() < 0.3:
            steps.append({"op": "new_delete_bucket", "k": r.randrange(0, 100)})
        elif any(x["op"] == "switch_profile" for x in steps) and r.random() < 0.5:
            steps.append({"op": "first_start_other"})
        steps.append({"op": "restart_new", "dirty": r.random() < 0.5})
        return {"backend": "peewee-to-sqlite", "profile": profile, "steps": steps, "lat": lat}

    def start(self, world, run):
        world.open()
        self._nt = False
        self._shape = None
        world.probes["profile_testing" if run["profile"] else "profile_normal"] += 1

    def _compare(self, world, op):
        pr = world.probes
        want = world.expected[world.profile]
        got = world.new_dump
        for b in sorted(want):
            if b not in got:
                raise Violation("bucket_missing", "legacy bucket %r is not in the new store (new store has %s)" % (b, sorted(got)), {"op": op})
            wm, gm = want[b]["meta"], got[b]["meta"]
            for k in ("id", "type", "client", "hostname", "name", "created_us", "data"):
                if wm.get(k) != gm.get(k):
                    raise Violation("bucket_metadata", "bucket %r migrated with %s=%s, legacy store has %s" % (b, k, short(gm.get(k)), short(wm.get(k))), {"op": op})
            we = sorted(t[1:] for t in want[b]["events"])
            ge = sorted(t[1:] for t in got[b]["events"])
            if we != ge:
                lost = _msub(we, ge)
                dup = _msub(ge, we)
                if lost:
                    raise Violation("events_lost", "bucket %r: %d of %d legacy events are missing from the new store, e.g. %s" % (b, len(lost), len(we), short(lost[0], 200)), {"op": op})
                raise Violation("events_duplicated", "bucket %r: %d events in the new store have no counterpart in the legacy store, e.g. %s" % (b, len(dup), short(dup[0], 200)), {"op": op})
            if we:
                pr["legacy_events_migrated"] += len(we)
                self._nt = True
            if wm.get("data") != ("d", ()):
                pr["legacy_bucket_with_data"] += 1
            if wm.get("name") is None:
                pr["legacy_bucket_name_omitted"] += 1
            if len(we) > 1000:
                pr["legacy_bucket_over_1000_events"] += 1
            if any(t[1] < 0 for t in we):
                pr["legacy_negative_duration"] += 1
            if any("\\ud83d" in repr(t[2]) for t in we):
                pr["legacy_unpaired_surrogate"] += 1
            ids = sorted(t[0] for t in want[b]["events"])
            if ids and ids[-1] - ids[0] + 1 != len(ids):
                pr["id_holes"] += 1
            if any(ord(ch) > 127 for ch in b):
                pr["unicode_bucket_id"] += 1
            if any(o != b and o.lower() == b.lower() for o in want):
                pr["bucket_ids_differ_in_case"] += 1
        back = sorted(b for b in world.deleted_after if b in got)
        if back:
            raise Violation("events_duplicated", "bucket(s) %s, migrated once and deleted by the user since, are back after %s: the migration ran again" % (back, op), {"op": op, "kind": "migration_rerun"})
        self._shape = sorted((b, len(v["events"])) for b, v in want.items())
        for prof, h in world.legacy_hash.items():
            p = world.legacy_path(prof)
            if not os.path.exists(p) or _sha(p) != h:
                raise Violation("legacy_modified", "the legacy database file of profile testing=%s was modified or removed by the migration" % prof, {"op": op})

    def after(self, world, step, out, i):
        op = step["op"]
        if op in ("first_start", "restart_new", "first_start_other", "new_delete_bucket"):
            if out.get("exc") is not None:
                raise Violation("events_lost", "%s of the new store raised %r" % (op, out["exc"]), {"op": op})
            self._compare(world, op)
            if op == "restart_new":
                world.probes["restart_new_checked"] += 1
        elif op == "switch_profile":
            pass
        else:
            world.refresh_view()

    def nontrivial(self, world, run, res):
        return self._nt

    def signature(self, world, run, res):
        from sim.common import digest

        return digest([run["profile"], res["opseq"], self._shape])


def _msub(a, b):
    """multiset difference a - b of sorted lists"""
    from collections import Counter

    c = Counter(a)
    c.subtract(Counter(b))
    return [x for x, n in c.items() for _ in range(max(n, 0))]


CHECK = C14()
