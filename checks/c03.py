"""C03 -- time-window reads return exactly the intersecting events, newest first, limited.

Windowed reads and counts are operations inside seeded multi-party histories (contents are
reached by inserts, upserts, replaces, deletes and restarts).  The reference for a windowed
read is the same store's unwindowed read, filtered by the harness -- self-contained."""
from sim import actors, gen
from sim.common import Violation, obs_event, short
from sim.rng import Streams, derive
from sim.runner import Check
from sim.world import BACKENDS

TOL = 2000  # the property's own "about 2 ms", in microseconds
CLIPPING_BACKENDS = ("peewee",)  # "the one backend that clips"
H24 = 86_400_000_000
HOUR = 3_600_000_000


def long_events(r, steps, p=0.1):
    """Give a fraction of the generated events durations of hours (up to and just beyond 24 h)."""
    for s in steps:
        evs = [s["ev"]] if "ev" in s else [it["ev"] for it in s.get("evs", [])]
        for E in evs:
            if r.random() < p:
                E["dur"] = r.choice([HOUR, 2 * HOUR, 5 * HOUR, 23 * HOUR + 59 * 60_000_000, H24, H24 + HOUR])
    return steps
DELTAS = [0, 0, 1, -1, 999, -999, 1000, -1000, 1999, -1999, 2001, -2001, 3000, -3000, 500_000, -500_000]


class WindowReader(actors.Party):
    name = "wreader"

    def __init__(self, r, cfg, b):
        super().__init__(r, cfg)
        self.b = b

    def edge(self):
        r, lat = self.r, self.cfg["lat"]
        # snapped near event starts/ends (lattice points), sometimes far away
        c = r.random()
        if c < 0.7:
            p = lat["base"] + lat["step"] * r.randrange(-1, lat["n"] + 6)
        elif c < 0.85:
            p = lat["base"] + r.randrange(-3 * lat["step"], (lat["n"] + 8) * lat["step"])
        else:
            # hours away from the lattice: only long events reach here
            p = lat["base"] + lat["step"] * r.randrange(0, lat["n"] + 1) + r.choice([1, 2, 6, 23, 24, 25]) * HOUR
        return p + r.choice(DELTAS)

    def step(self):
        r = self.r
        s = {"b": self.b}
        c = r.random()
        if c < 0.2:
            s["start"] = self.edge()
        elif c < 0.4:
            s["end"] = self.edge()
        else:
            a, b = self.edge(), self.edge()
            if r.random() < 0.12:
                b = a  # zero-width
            elif r.random() < 0.1:
                b = a + r.randrange(0, 900)  # sub-millisecond
            s["start"], s["end"] = min(a, b), max(a, b)
        if "start" in s:
            s["soff"] = gen.offset(r)
        if "end" in s:
            s["eoff"] = gen.offset(r)
        if r.random() < 0.35:
            s["op"] = "count"
        else:
            s["op"] = "read"
            s["limit"] = r.choice([-1, -1, -1, 1, 1, 2, 3, 5, 0, -5, 50])
        return s


class C03(Check):
    prop = "C03"
    level = "exploration"
    quick_runs = 12000
    thorough_runs = 400000
    rule = (
        "seeded histories (importer/editor per bucket, clean restarts) on a coarse lattice produce overlapping, nested, "
        "adjacent and zero-length events; interleaved windowed reads/counts with edges snapped to event starts/ends "
        "+-{0,1us,999us,1ms,2ms,3ms}, open-ended, zero-width, sub-ms windows, any UTC offset, limits -5..50; each is "
        "checked against the store's own unwindowed read filtered with a 2 ms edge tolerance; non-trivial = a windowed "
        "read/count executed on a bucket with >=2 events where the window splits the bucket (some event must be in and "
        "some must be out) ; distinct = distinct (backend, op-kind sequence)"
    )
    expected_probes = ["window_splits_bucket", "edge_within_tol", "nested_events", "limit_cuts_window", "limit_cuts_tie", "zero_width_window", "open_start", "open_end", "clipped_event_returned", "count_checked", "restart_clean", "straddles_start", "long_event_straddles_start_by_hours"]
    assumptions = ["the unwindowed read get(limit=-1) is a faithful listing of the bucket (C02 decides that)", "window start <= end; must-include only for events up to 24 h long, as the property states"]

    def gen(self, seed, idx, tier):
        lidx, bidx = divmod(idx, len(BACKENDS))
        rs = Streams(derive(seed, self.prop, lidx))
        r = rs["cfg"]
        backend = BACKENDS[bidx]
        nb = r.choice([1, 1, 2])
        buckets = gen.bucket_ids(r, nb)
        lat = gen.lattice(rs["lat"])
        lat["n"] = min(lat["n"], r.choice([4, 8, 12, 40]))
        cfg = {"lat": lat, "alphabet": 3, "bulk_max": r.choice([3, 8, 20]), "upsert_p": 0.15, "never_p": 0.1}
        steps = actors.creates(rs["meta"], buckets, cfg)
        pr = rs["populate"]
        for b in buckets:
            n = pr.randrange(1, 8)
            steps.append({"op": "insertN", "b": b, "evs": [{"ev": gen.event(pr, lat)} for _ in range(n)], "actor": "importer"})
        if pr.random() < 0.04:
            # a well-filled bucket (more than a page of anything), loaded out of chronological order
            b = buckets[0]
            for _ in range(2):
                steps.append({"op": "insertN", "b": b, "evs": [{"ev": gen.event(pr, lat)} for _ in range(pr.choice([120, 260]))], "actor": "importer"})
        parties = []
        for k, b in enumerate(buckets):
            parties.append(actors.Importer(rs["imp%d" % k], cfg, b))
            parties.append(actors.Editor(rs["edit%d" % k], cfg, b))
            parties.append(WindowReader(rs["wread%d" % k], cfg, b))
        parties.append(actors.Operator(rs["oper"], {"dirty_p": 0.0}))
        parties.append(actors.Admin(rs["admin"], cfg, buckets))  # buckets are deleted and re-created under the same id
        weights = {"importer": 1.0, "editor": 0.8, "wreader": 3.0, "operator": 0.1, "admin": r.choice([0.0, 0.15, 0.4])}
        nsteps = r.choice([3, 6, 10, 20, 40] + ([80, 160] if tier == "thorough" else []))
        steps += actors.schedule(rs["sched"], parties, weights, nsteps)
        if r.random() < 0.5:
            long_events(rs["long"], steps)
        return {"backend": backend, "steps": steps, "lat": lat}

    def start(self, world, run):
        super().start(world, run)
        self._nontrivial = False

    @staticmethod
    def classify(ev, ws, we):
        """-> 'must', 'may' or 'out' for stored event (id, s, dur, data) against window [ws, we]."""
        s, e = ev[1], ev[1] + ev[2]
        inside = True
        outside = False
        if ws is not None:
            if e - ws <= TOL:
                inside = False
            if ws - e > TOL:
                outside = True
        if we is not None:
            if we - s <= TOL:
                inside = False
            if s - we > TOL:
                outside = True
        if outside:
            return "out"
        if inside and ev[2] <= H24:
            return "must"
        return "may"

    def after(self, world, step, out, i):
        op = step["op"]
        if op not in ("read", "count") or ("start" not in step and "end" not in step):
            world.refresh_view()
            return
        b = step["b"]
        exc = out.get("exc")
        if exc is not None:
            raise Violation("op_raised", "%s over a window raised %r" % (op, exc), {"op": op})
        ws, we = step.get("start"), step.get("end")
        stored = world.dump_bucket(b)  # the store's own unwindowed listing, right now
        world.view[b]["events"] = stored
        byid = {t[0]: t for t in stored}
        cls = {t[0]: self.classify(t, ws, we) for t in stored}
        must = [t for t in stored if cls[t[0]] == "must"]
        may = [t for t in stored if cls[t[0]] != "out"]
        pr = world.probes
        if ws is None:
            pr["open_start"] += 1
        if we is None:
            pr["open_end"] += 1
        if ws is not None and ws == we:
            pr["zero_width_window"] += 1
        if len(may) > len(must):
            pr["edge_within_tol"] += 1
        if must and len(may) < len(stored):
            pr["window_splits_bucket"] += 1
            self._nontrivial = True
        if ws is not None and any(t[1] < ws - TOL and t[1] + t[2] > ws + TOL for t in stored):
            pr["straddles_start"] += 1
        if ws is not None and any(t[1] < ws - HOUR and t[1] + t[2] > ws + TOL and t[2] <= H24 for t in stored):
            pr["long_event_straddles_start_by_hours"] += 1
        for t in stored:
            if any(u[1] < t[1] and u[1] + u[2] > t[1] + t[2] for u in stored):
                pr["nested_events"] += 1
                break
        win = "[%s, %s]" % (ws, we)
        if op == "count":
            pr["count_checked"] += 1
            n = out["ret"]
            if not (len(must) <= n <= len(may)):
                raise Violation("count_window", "get_eventcount over %s of %r = %r but %d events must and at most %d may be counted; stored=%s" % (win, b, n, len(must), len(may), short(stored, 300)), {"op": op})
            return
        lim = step.get("limit", -1)
        got = [obs_event(e) for e in out["ret"]]
        if lim == 0:
            if got:
                raise Violation("limit_len", "read with limit 0 returned %d events" % len(got), {"op": op})
            return
        ids = [t[0] for t in got]
        if len(set(ids)) != len(ids):
            raise Violation("must_exclude", "windowed read returned an event twice: ids %s" % short(ids), {"op": op})
        for t in got:
            st = byid.get(t[0])
            if st is None:
                raise Violation("must_exclude", "windowed read over %s returned id %r which the bucket does not hold" % (win, t[0]), {"op": op})
            if cls[t[0]] == "out":
                raise Violation("must_exclude", "read over %s returned event %s which lies outside the window by more than 2 ms" % (win, short(st)), {"op": op})
            if t[3] != st[3]:
                raise Violation("clip_shape", "returned event id %r has data differing from the stored event" % (t[0],), {"op": op})
            clipped = (t[1], t[2]) != (st[1], st[2])
            if clipped or world.backend in CLIPPING_BACKENDS:
                # a backend that clips must return the stored event cut to the window and nothing else:
                # both edges are those of (stored interval) intersected with (window), within the tolerance.
                # On the one backend that clips (pinned by the repo's own test_get_event_trimming) an event
                # that reaches out of the window by more than the tolerance may not come back uncut either.
                if clipped:
                    pr["clipped_event_returned"] += 1
                s, e = st[1], st[1] + st[2]
                rs_, re_ = t[1], t[1] + t[2]
                cut_s = s if ws is None else max(s, ws)
                cut_e = e if we is None else min(e, we)
                if abs(rs_ - cut_s) > TOL or abs(re_ - cut_e) > TOL:
                    raise Violation("clip_shape", "read over %s returned %s for stored event %s: neither the stored event nor the stored event cut to the window (%d, %d)" % (win, short(t), short(st), cut_s, cut_e), {"op": op})
        tss = [t[1] for t in got]
        if any(tss[k] < tss[k + 1] for k in range(len(tss) - 1)):
            raise Violation("order_desc", "read over %s of %r is not ordered by timestamp descending: %s" % (win, b, short([(t[0], t[1], t[2]) for t in got], 300)), {"op": op})
        gid = set(ids)
        if lim < 0:
            missing = [t for t in must if t[0] not in gid]
            if missing:
                raise Violation("must_include", "read over %s of %r misses %s which reach into the window by more than 2 ms" % (win, b, short(missing, 300)), {"op": op})
            return
        lo, hi = min(lim, len(must)), min(lim, len(may))
        if lim < len(may):
            pr["limit_cuts_window"] += 1
        if not (lo <= len(got) <= hi):
            raise Violation("limit_len", "read(limit=%d) over %s returned %d events; between %d and %d expected" % (lim, win, len(got), lo, hi), {"op": op})
        omitted = [t for t in must if t[0] not in gid]
        if omitted and got:
            # positive limit keeps the newest (by stored timestamp)
            oldest_returned = min(byid[t[0]][1] for t in got)
            newest_omitted = max(t[1] for t in omitted)
            if newest_omitted == oldest_returned:
                pr["limit_cuts_tie"] += 1
            if newest_omitted > oldest_returned:
                raise Violation("limit_newest", "read(limit=%d) over %s kept an event with timestamp %d but omitted %s which is newer" % (lim, win, oldest_returned, short([t for t in omitted if t[1] == newest_omitted][0])), {"op": op})

    def nontrivial(self, world, run, res):
        return self._nontrivial


CHECK = C03()
