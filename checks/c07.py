"""C07 -- heartbeat ingestion through the store equals heartbeat_reduce of the stream.

2-4 watchers, each feeding its own bucket by the standard loop, interleaved (whole
heartbeats) with importers/editors on other buckets of the same database that share the
time lattice, and with clean restarts.  Oracle: after every heartbeat the watcher's bucket
(ignoring ids) equals the repo's own heartbeat_reduce of the stream so far, and every event
other than the newest is exactly (id and content) what it was before."""
import copy

from sim import actors, gen
from sim.common import Violation, mk_event, obs_event, short
from sim.rng import Streams, derive
from sim.runner import Check
from sim.world import BACKENDS


class Troublemaker(actors.Party):
    """Rejected writes (through the handle of a bucket deleted since) and watcher buckets that are deleted and
    re-created under the same id in the middle of their stream."""

    name = "trouble"

    def __init__(self, r, cfg, watchers):
        super().__init__(r, cfg)
        self.watchers = watchers
        self.first = True

    def step(self):
        r = self.r
        if self.first:
            self.first = False
            return [{"op": "create", "b": "tmp", "meta": gen.meta(r, wild=False)}, {"op": "delete_bucket", "b": "tmp"}]
        x = r.random()
        if x < 0.45:
            return {"op": "insert_stale", "b": "tmp", "ev": gen.event(r, self.cfg["lat"])}
        b = r.choice(self.watchers)
        if x < 0.75:
            # somebody edits the bucket's metadata between two heartbeats: no business of the events
            return {"op": "update", "b": b, "fields": actors.update_fields(r)}
        return [{"op": "delete_bucket", "b": b}, {"op": "create", "b": b, "meta": gen.meta(r, wild=False)}]


class C07(Check):
    prop = "C07"
    level = "exploration"
    quick_runs = 12000
    thorough_runs = 300000
    rule = (
        "2-4 watcher streams (strictly increasing timestamps, non-decreasing end instants, zero/positive durations, "
        "1-3 letter data alphabet, gaps just below/at/above the pulsetime, ends tying with the previous event) fed by "
        "the standard loop, whole heartbeats interleaved by the seeded scheduler with importer/editor traffic on other "
        "buckets sharing the lattice and with clean restarts; same stream set on each backend; non-trivial = some "
        "stream of >=3 heartbeats produced both a merge and a non-merge; distinct = distinct (backend, op-kind sequence, stream shape)"
    )
    expected_probes = ["merged", "not_merged", "zero_length_heartbeat", "end_ties_with_previous", "other_bucket_shares_end_instant", "restart_clean", "gap_exactly_pulsetime", "merged_event_longer_than_24h", "watcher_bucket_recreated", "insert_through_stale_handle", "heartbeat_object_fed_to_two_buckets"]
    assumptions = ["one whole heartbeat (read newest, merge, replace_last|insert) is atomic, as aw-server guarantees by its lock", "heartbeat_reduce/heartbeat_merge themselves are the specification here (C08 is about them)"]
    real_components = Check.real_components + ["aw_transform.heartbeat_merge / heartbeat_reduce"]

    def gen(self, seed, idx, tier):
        lidx, bidx = divmod(idx, len(BACKENDS))
        rs = Streams(derive(seed, self.prop, lidx))
        r = rs["cfg"]
        backend = BACKENDS[bidx]
        nw = r.choice([1, 2, 2, 3, 4])
        nother = r.choice([0, 1, 1, 2])
        ids = ["w0", "w1", "w2", "w3"][:nw]
        others = ["o0", "o1"][:nother]
        lat = gen.lattice(rs["lat"])
        lat["n"] = min(lat["n"], 12)
        cfg = {"lat": lat, "alphabet": r.choice([1, 2, 2, 3]), "bulk_max": 6, "upsert_p": 0.2, "never_p": 0.1}
        steps = actors.creates(rs["meta"], ids + others, cfg)
        parties = []
        mirror = nw >= 2 and r.random() < 0.25  # w1 is fed from w0's stream, with the same heartbeat objects
        for k, b in enumerate(ids):
            if mirror and k == 1:
                continue
            pulse = r.choice([0, 0.001, 0.5, 1, 1, 2.5, 5, 60])
            unit = None
            if r.random() < 0.12:
                # an afk-style watcher: hours between heartbeats, merged events grow past 24 h
                pulse, unit = r.choice([4 * 3600, 10 * 3600]), r.choice([3, 5]) * 3_600_000_000
            parties.append(actors.Watcher(rs["watch%d" % k], cfg, b, pulse, unit))
            if mirror and k == 0:
                parties[-1].mirror = ids[1]
        for k, b in enumerate(others):
            parties.append(actors.Importer(rs["imp%d" % k], cfg, b))
            parties.append(actors.Editor(rs["edit%d" % k], cfg, b))
        parties.append(actors.Operator(rs["oper"], {"dirty_p": 0.0}))
        parties.append(Troublemaker(rs["trouble"], cfg, ids))
        weights = {"watcher": 3.0, "importer": 1.0, "editor": 1.0, "operator": 0.1, "trouble": r.choice([0.0, 0.2, 0.5])}
        nsteps = r.choice([4, 8, 12, 25, 50] + ([100, 200] if tier == "thorough" else []))
        steps += actors.schedule(rs["sched"], parties, weights, nsteps)
        return {"backend": backend, "steps": steps, "lat": lat}

    def start(self, world, run):
        super().start(world, run)
        self.streams = {}  # bucket -> list of heartbeat JSON forms fed so far
        self.pulse = {}
        self.flags = {}

    def after(self, world, step, out, i):
        op = step["op"]
        if op != "heartbeat":
            if op == "delete_bucket" and out.get("exc") is None and step["b"] in self.streams:
                self.streams[step["b"]] = []  # the bucket starts over: so does what it must hold
                world.probes["watcher_bucket_recreated"] += 1
            before = world.view
            after = world.refresh_view()
            # traffic on other buckets must not disturb a watcher's bucket (belongs to C04; abandon there)
            return
        from aw_transform import heartbeat_reduce

        b = step["b"]
        if out.get("exc") is not None:
            raise Violation("op_raised", "heartbeat ingestion raised %r" % (out["exc"],), {"op": op})
        pr = world.probes
        prev = world.view[b]["events"]
        stream = self.streams.setdefault(b, [])
        E = step["ev"]
        if stream:
            pe = stream[-1]
            prev_end = max(x["ts"] + x["dur"] for x in stream)
            if E["ts"] + E["dur"] == prev_end:
                pr["end_ties_with_previous"] += 1
            if E["ts"] - prev_end == int(round(step["pulse"] * 1e6)):
                pr["gap_exactly_pulsetime"] += 1
        if E["dur"] == 0:
            pr["zero_length_heartbeat"] += 1
        stream.append(E)
        self.pulse[b] = step["pulse"]
        fl = self.flags.setdefault(b, set())
        fl.add("merged" if out.get("merged") else "not_merged")
        pr["merged" if out.get("merged") else "not_merged"] += 1
        want = [obs_event(e)[1:] for e in heartbeat_reduce([mk_event(x) for x in stream], step["pulse"])]
        got_full = world.dump_bucket(b)
        got = sorted(t[1:] for t in got_full)
        if got != sorted(want):
            raise Violation(
                "equals_reduce",
                "bucket %r after %d heartbeats (pulsetime %s) holds %s but heartbeat_reduce of the stream gives %s" % (b, len(stream), step["pulse"], short(got, 300), short(sorted(want), 300)),
                {"op": op},
            )
        # no earlier event altered or lost: everything but the previously newest event is untouched (id and content)
        if prev:
            newest_ts = max(t[1] for t in prev)
            now = {t[0]: t for t in got_full}
            for t in prev:
                if t[1] == newest_ts:
                    continue
                if now.get(t[0]) != t:
                    raise Violation("earlier_event_changed", "heartbeat altered or lost earlier event %s (now %s)" % (short(t), short(now.get(t[0]))), {"op": op})
        # probe: another bucket holds an event with this bucket's maximal end instant
        if got_full:
            m = max(t[1] + t[2] for t in got_full)
            for ob, v in world.view.items():
                if ob != b and any(t[1] + t[2] == m for t in v["events"]):
                    pr["other_bucket_shares_end_instant"] += 1
                    break
        if any(t[2] > 86_400_000_000 for t in got_full):
            pr["merged_event_longer_than_24h"] += 1
        world.view[b]["events"] = got_full

    def nontrivial(self, world, run, res):
        return any(len(self.streams.get(b, [])) >= 3 and len(f) == 2 for b, f in self.flags.items())

    def signature(self, world, run, res):
        from sim.common import digest

        shape = sorted((b, len(s), sorted(self.flags.get(b, []))) for b, s in self.streams.items())
        return digest([run["backend"], res["opseq"], shape])


CHECK = C07()
