"""C01 -- stored events come back exactly as inserted, and the store owns its copy.

The simulation contributes the history dimension: an adversarial client keeps references to
every object it passed in (events, nested data, metadata dicts) or was handed out (events
from listings / lookups / insert's return value, metadata dicts) and scribbles on them at
arbitrary later points, interleaved with further writes, reads and clean/dirty restarts.
Instants, durations and JSON data are generated input (said plainly in DESIGN.md)."""
import copy
from datetime import timedelta

from sim import actors, gen
from sim.common import Violation, canon, expect_tuple, obs_event, short, sort_key_id, us_to_dt
from sim.rng import Streams, derive
from sim.runner import Check
from sim.world import BACKENDS, World, meta_canon


class AliasWorld(World):
    def __init__(self, backend, rundir):
        super().__init__(backend, rundir)
        self.refs = []  # (kind, object) -- everything the client still holds

    def keep(self, kind, obj):
        if obj is not None:
            self.refs.append((kind, obj))

    def op_create(self, s):
        b = s["b"]
        if b in self.view:
            return {"skipped": "exists"}
        m = s["meta"]
        kw = {}
        if "name" in m:
            kw["name"] = m["name"]
        if "data" in m:
            kw["data"] = copy.deepcopy(m["data"])
            self.keep("metadata_passed_in", kw["data"])
        out = self._call(self.ds.create_bucket, b, type=m["type"], client=m["client"], hostname=m["hostname"], created=us_to_dt(m["created_us"], m.get("off", 0)), **kw)
        if out["exc"] is None:
            self.handles[b] = out["ret"]
        return out

    def op_update(self, s):
        f = copy.deepcopy(s["fields"])
        if "data" in f:
            self.keep("metadata_passed_in", f["data"])
        if "type" in f:
            f["type_id"] = f.pop("type")
        return self._call(self.ds.update_bucket, s["b"], **f)

    def op_describe(self, s):
        b = s["b"]
        if b not in self.view:
            return {"skipped": "no bucket"}
        out = self._call(self.ds[b].metadata)
        self.keep("metadata_handed_out", out["ret"])
        return out

    def op_listing(self, s):
        out = self._call(self.ds.buckets)
        self.keep("metadata_handed_out", out["ret"])
        return out

    def op_insert1(self, s):
        out = super().op_insert1(s)
        if "passed" in out:
            self.keep("event_passed_in", out["passed"][0])
            self.keep("event_handed_out", out.get("ret"))
        return out

    def op_insertN(self, s):
        out = super().op_insertN(s)
        for e in out.get("passed", [])[:6]:
            self.keep("event_passed_in", e)
        return out

    def op_replace(self, s):
        out = super().op_replace(s)
        for e in out.get("passed", []):
            self.keep("event_passed_in", e)
        return out

    def op_replace_last(self, s):
        out = super().op_replace_last(s)
        for e in out.get("passed", []):
            self.keep("event_passed_in", e)
        return out

    def op_read(self, s):
        out = super().op_read(s)
        for e in (out.get("ret") or [])[:4]:
            self.keep("event_handed_out", e)
        return out

    def op_byid(self, s):
        out = super().op_byid(s)
        self.keep("event_handed_out", out.get("ret"))
        return out

    def op_read_around(self, s):
        """A windowed listing whose window contains the k-th event entirely (it ends 0..999 us after the event)."""
        b = s["b"]
        bk = self._bk(b)
        if bk is None:
            return {"skipped": "no bucket"}
        evs = self.view[b]["events"]
        if not evs:
            return {"skipped": "empty"}
        t = evs[s["k"] % len(evs)]
        if t[2] < 0:
            return {"skipped": "negative duration"}
        st = us_to_dt(t[1] - 1_000_000)
        en = us_to_dt(t[1] + t[2] + s["delta"], s.get("eoff", 0))
        out = self._call(bk.get, limit=-1, starttime=st, endtime=en)
        out["target"] = t
        return out

    def op_mutate(self, s):
        """The client scribbles on an object it still holds.  No call into the store."""
        if not self.refs:
            return {"skipped": "no reference held"}
        kind, obj = self.refs[s["h"] % len(self.refs)]
        how = s["how"]
        from aw_core.models import Event

        if isinstance(obj, Event):
            if how == 0:
                obj.data["scribble"] = s["val"]
            elif how == 1:
                _scribble_nested(obj.data, s["val"])
            elif how == 2:
                obj.data.clear()
            elif how == 3:
                obj.duration = obj.duration + timedelta(seconds=7.5)
            elif how == 4:
                obj.timestamp = obj.timestamp + timedelta(hours=1)
            elif how == 5:
                obj.id = 987_654
            else:
                obj["data"] = {"replaced": s["val"]}
        elif isinstance(obj, dict):
            if how % 3 == 0:
                _scribble_nested(obj, s["val"])
            elif how % 3 == 1:
                obj["scribble"] = s["val"]
                for k in list(obj):
                    if isinstance(obj[k], str):
                        obj[k] = obj[k] + "-scribbled"
            else:
                for k in list(obj):
                    if isinstance(obj[k], dict):
                        obj[k].clear()
                    elif k != "scribble":
                        pass
        return {"ret": None, "exc": None, "kind": kind}


def _scribble_nested(d, val):
    """Mutate the deepest containers reachable, and the top level."""
    seen = 0
    stack = [d]
    while stack and seen < 50:
        x = stack.pop()
        seen += 1
        if isinstance(x, dict):
            for k in sorted(x, key=str):
                if isinstance(x[k], (dict, list)):
                    stack.append(x[k])
            x["scribble"] = val
        elif isinstance(x, list):
            for y in x:
                if isinstance(y, (dict, list)):
                    stack.append(y)
            x.append(val)


class Adversary(actors.Party):
    name = "adversary"

    def step(self):
        r = self.r
        return {"op": "mutate", "h": r.randrange(0, 10_000), "how": r.randrange(0, 7), "val": r.choice(["X", 1, None, [1], {"y": 2}])}


class AroundReader(actors.Party):
    name = "around"

    def __init__(self, r, cfg, b):
        super().__init__(r, cfg)
        self.b = b

    def step(self):
        r = self.r
        return {"op": "read_around", "b": self.b, "k": r.randrange(0, 1000), "delta": r.choice([0, 1, 499, 999, 1000, 5000]), "eoff": gen.offset(r)}


class Describer(actors.Party):
    name = "describer"

    def __init__(self, r, cfg, buckets):
        super().__init__(r, cfg)
        self.buckets = buckets

    def step(self):
        r = self.r
        x = r.random()
        if x < 0.4:
            return {"op": "describe", "b": r.choice(self.buckets)}
        if x < 0.7:
            return {"op": "listing"}
        return {"op": "update", "b": r.choice(self.buckets), "fields": actors.update_fields(r)}


class Rejecter(actors.Party):
    """Writes that the store must reject (through the handle of a bucket deleted since), issued while other
    acknowledged inserts may still be buffered."""

    name = "rejecter"

    def __init__(self, r, cfg):
        super().__init__(r, cfg)
        self.first = True

    def step(self):
        r = self.r
        if self.first:
            self.first = False
            return [{"op": "create", "b": "tmp", "meta": gen.meta(r, wild=False)}, {"op": "delete_bucket", "b": "tmp"}]
        if r.random() < 0.5:
            return {"op": "insert_stale", "b": "tmp", "ev": self.ev()}
        return {"op": "insert_stale", "b": "tmp", "evs": [{"ev": self.ev()} for _ in range(r.randrange(1, 4))]}


class C01(Check):
    prop = "C01"
    level = "exploration"
    quick_runs = 8000
    thorough_runs = 200000
    rule = (
        "seeded histories: wild events (instants 1970..2100 at any UTC offset biased to awkward microsecond values, "
        "durations 0..30 d at us granularity, nested unicode/float/null/big-int JSON) inserted singly and in bulk, "
        "replaced, deleted, read back by listing and by id; an adversary mutates objects passed in / handed out "
        "(events, nested data, metadata dicts) at later steps; clean restarts (flush, close, reopen the file) on file backends; after every "
        "step the dump is compared with harness-held deep copies; non-trivial = at least one mutation of a held "
        "reference executed after a write; distinct = (backend, op-kind sequence)"
    )
    expected_probes = ["mutate_event_passed_in", "mutate_event_handed_out", "mutate_metadata_passed_in", "mutate_metadata_handed_out", "restart_clean", "bulk_insert", "events_read_back", "offset_nonzero", "us_not_ms_aligned", "year_2100", "nested_data", "bulk_same_object_twice", "observation_deferred", "insert_through_stale_handle_checked", "windowed_listing_around_event"]
    assumptions = ["restarts are clean (explicit flush before close): what survives an exit without shutdown is C06's subject"]

    def make_world(self, run, rundir):
        return AliasWorld(run["backend"], rundir)

    def gen(self, seed, idx, tier):
        lidx, bidx = divmod(idx, len(BACKENDS))
        rs = Streams(derive(seed, self.prop, lidx))
        r = rs["cfg"]
        backend = BACKENDS[bidx]
        nb = r.choice([1, 1, 2])
        buckets = gen.bucket_ids(r, nb)
        lat = gen.lattice(rs["lat"])
        cfg = {"lat": lat, "alphabet": 3, "bulk_max": r.choice([3, 8, 40, 120]), "upsert_p": 0.1, "never_p": 0.1, "dup_p": r.choice([0.0, 0.0, 0.15]), "wild": True, "wild_p": r.choice([0.5, 0.9, 1.0]), "wild_meta": True}
        steps = actors.creates(rs["meta"], buckets, cfg)
        parties = []
        for k, b in enumerate(buckets):
            parties.append(actors.Importer(rs["imp%d" % k], cfg, b))
            parties.append(actors.Editor(rs["edit%d" % k], cfg, b))
            parties.append(actors.Reader(rs["read%d" % k], cfg, b))
            parties.append(AroundReader(rs["around%d" % k], cfg, b))
        parties.append(Adversary(rs["adv"], cfg))
        parties.append(Rejecter(rs["rej"], cfg))
        defer = r.random() < 0.3
        parties.append(Describer(rs["desc"], cfg, buckets))
        # restarts in this check are clean ones: whether buffered writes survive an exit without shutdown is
        # C06's subject (a store whose reads do not flush would otherwise look like it corrupts events)
        parties.append(actors.Operator(rs["oper"], {"dirty_p": 0.0}))
        weights = {"importer": 2.0, "editor": 0.7, "reader": 1.0, "adversary": 2.5, "describer": 0.6, "operator": 0.2, "rejecter": 0.15, "around": 0.6}
        if defer:
            weights.update(importer=3.0, rejecter=0.8, reader=0.5)
        nsteps = r.choice([3, 6, 10, 20, 40] + ([80, 160] if tier == "thorough" else []))
        steps += actors.schedule(rs["sched"], parties, weights, nsteps)
        run = {"backend": backend, "steps": steps, "lat": lat, "defer": defer}
        if r.random() < 0.05:
            run["clock0"] = 1_835_438_400_000_000  # 2028-02-29T12:00:00Z: the wall clock may well read a leap day
        return run

    def start(self, world, run):
        super().start(world, run)
        self._defer = bool(run.get("defer"))
        self.model = {}
        self.meta = {}
        self.wrote = False
        self._nt = False

    def _field_tag(self, want, got):
        if want[0] != got[0]:
            return "fidelity_instant"
        if want[1] != got[1]:
            return "fidelity_duration"
        return "fidelity_data"

    def _cmp(self, world, op, alias_kind=None):
        view = world.refresh_view()
        for b in sorted(self.model):
            if b not in view:
                raise Violation("fidelity_data", "bucket %r vanished after %s" % (b, op), {"op": op})
            got = view[b]["events"]
            ids = [t[0] for t in got]
            if len(set(ids)) != len(ids):
                raise Violation("id_unique", "bucket %r lists an id twice after %s" % (b, op), {"op": op})
            gd = {t[0]: t[1:] for t in got}
            mb = self.model[b]
            if gd != mb:
                tag = None
                msg = None
                for i in sorted(set(gd) | set(mb), key=str):
                    if gd.get(i) != mb.get(i):
                        if i in gd and i in mb:
                            tag = self._field_tag(mb[i], gd[i])
                        else:
                            tag = "fidelity_data"
                        msg = "event id %r of bucket %r reads back as %s, expected %s" % (i, b, short(gd.get(i), 260), short(mb.get(i), 260))
                        break
                if alias_kind:
                    tag = "alias_passed_in" if alias_kind == "event_passed_in" else "alias_handed_out" if alias_kind == "event_handed_out" else "alias_metadata"
                    msg = "after the client mutated an object it held (%s): %s" % (alias_kind, msg)
                raise Violation(tag, "after %s: %s" % (op, msg), {"op": op})
            # metadata
            gm = view[b]["meta"]
            for k, v in self.meta[b].items():
                if gm.get(k) != v:
                    tag = "alias_metadata"
                    raise Violation(tag, "after %s%s bucket %r metadata %s reads %s, expected %s" % (op, " (client mutated a held %s)" % alias_kind if alias_kind else "", b, k, short(gm.get(k)), short(v)), {"op": op})
            try:
                md = meta_canon(world.ds[b].metadata())
            except Exception as e:
                raise Violation("alias_metadata", "describing %r raised %r" % (b, e), {"op": op})
            for k, v in self.meta[b].items():
                if md.get(k) != v:
                    raise Violation("alias_metadata", "after %s%s Bucket.metadata() of %r has %s=%s, expected %s" % (op, " (client mutated a held %s)" % alias_kind if alias_kind else "", b, k, short(md.get(k)), short(v)), {"op": op})

    def _probe_event(self, world, E):
        pr = world.probes
        if E.get("off"):
            pr["offset_nonzero"] += 1
        if E["ts"] % 1000:
            pr["us_not_ms_aligned"] += 1
        if E["ts"] > 4_070_908_800_000_000:
            pr["year_2100"] += 1
        if any(isinstance(v, (dict, list)) for v in E.get("data", {}).values()):
            pr["nested_data"] += 1

    def after(self, world, step, out, i):
        op = step["op"]
        b = step.get("b")
        exc = out.get("exc")
        pr = world.probes
        if op == "mutate":
            kind = out["kind"]
            pr["mutate_" + kind] += 1
            if self.wrote:
                self._nt = True
            self._cmp(world, op, alias_kind=kind)
            return
        if exc is not None and op not in ("mutate", "insert_stale"):
            raise Violation("fidelity_data", "%s raised %r" % (op, exc), {"op": op})
        if op == "insert_stale":
            pr["insert_through_stale_handle_checked"] += 1
            if self._defer:
                return  # no read now: whatever is buffered stays buffered; the next observed step compares
            self._cmp(world, op)
            return
        if op == "delete_bucket":
            self.model.pop(b, None)
            self.meta.pop(b, None)
            world.refresh_view()
            return
        if op == "create":
            from checks.c05 import C05

            self.model[b] = {}
            self.meta[b] = C05.expected_meta(b, step["meta"])
        elif op == "update":
            if b in self.meta:
                for k, v in step["fields"].items():
                    self.meta[b][k] = canon(v) if k == "data" else v
        elif op == "insert1":
            self.wrote = True
            ret = out["ret"]
            mb = self.model[b]
            if ret is None or ret.id is None or ret.id in mb:
                raise Violation("id_unique", "insert returned %s; id missing or already live in the bucket" % short(ret and ret.id), {"op": op})
            mb[ret.id] = expect_tuple(step["ev"])
            self._probe_event(world, step["ev"])
            if self._defer:
                pr["observation_deferred"] += 1
                return  # deferred observation: no read after this insert (a read would flush)
            got = world.bucket(b).get_by_id(ret.id)
            if got is None or obs_event(got)[1:] != mb[ret.id]:
                g = got and obs_event(got)[1:]
                raise Violation(self._field_tag(mb[ret.id], g) if g else "fidelity_data", "lookup by id %r right after insert gives %s, expected %s" % (ret.id, short(g, 260), short(mb[ret.id], 260)), {"op": op})
            pr["events_read_back"] += 1
        elif op == "insertN":
            self.wrote = True
            pr["bulk_insert"] += 1
            mb = self.model[b]
            new = []
            for tid, E in out["targets"]:
                self._probe_event(world, E)
                if tid is not None:
                    mb[tid] = expect_tuple(E)
                else:
                    new.append(expect_tuple(E))
            got = world.dump_bucket(b)
            fresh = [t for t in got if t[0] not in mb]
            ids = [t[0] for t in fresh]
            if len(set(ids)) != len(ids) or any(x is None for x in ids):
                raise Violation("id_unique", "bulk insert assigned duplicate or missing ids %s" % short(ids), {"op": op})
            if sorted(t[1:] for t in fresh) != sorted(new):
                # attribute to the first differing field
                a, w = sorted(t[1:] for t in fresh), sorted(new)
                tag = "fidelity_data"
                if len(a) == len(w):
                    for x, y in zip(a, w):
                        if x != y:
                            tag = self._field_tag(y, x)
                            break
                raise Violation(tag, "bulk insert: new events read back as %s, expected %s" % (short(a, 260), short(w, 260)), {"op": op})
            for t in fresh:
                mb[t[0]] = t[1:]
            pr["events_read_back"] += len(fresh)
        elif op == "replace":
            self.wrote = True
            self.model[b][out["tid"]] = expect_tuple(step["ev"])
        elif op == "replace_last":
            self.wrote = True
            nid = out["newest"][0]
            if nid in self.model[b]:
                self.model[b][nid] = expect_tuple(step["ev"])
        elif op == "delete":
            if not step.get("never"):
                self.model[b].pop(out["tid"], None)
        elif op == "byid":
            tid, ret = out["tid"], out["ret"]
            mb = self.model[b]
            if tid in mb:
                if ret is None or obs_event(ret) != (tid,) + mb[tid]:
                    g = ret and obs_event(ret)[1:]
                    raise Violation(self._field_tag(mb[tid], g) if g else "fidelity_data", "lookup by id %r gives %s, expected %s" % (tid, short(g, 260), short(mb[tid], 260)), {"op": op})
        elif op == "read_around":
            # the listing is windowed, but the window contains the whole event: instant and duration are exact
            t = out["target"]
            pr["windowed_listing_around_event"] += 1
            hit = [obs_event(e) for e in out["ret"] if e.id == t[0]]
            if not hit:
                raise Violation("fidelity_data", "a listing over a window that contains event %s entirely does not return it" % short(t, 200), {"op": op})
            if hit[0] != t:
                raise Violation(self._field_tag(t[1:], hit[0][1:]), "a listing over a window that contains the event entirely (it ends %d us after the event) returns %s for stored %s" % (step["delta"], short(hit[0], 200), short(t, 200)), {"op": op})
        elif op == "read" and step.get("limit", -1) < 0:
            got = sorted((obs_event(e) for e in out["ret"]), key=sort_key_id)
            want = sorted(((i,) + c for i, c in self.model[b].items()), key=sort_key_id)
            if got != want:
                raise Violation("fidelity_data", "listing differs from what was inserted: got %s expected %s" % (short(got, 260), short(want, 260)), {"op": op})
        if op == "replace_last":
            # which event counts as newest under ties is C02's subject; follow the store here
            view = world.refresh_view()
            got = {t[0]: t[1:] for t in view[b]["events"]}
            if got != self.model[b]:
                from sim.common import Abandon

                raise Abandon("replace_last target differs from the limit-1 read (C02's subject)", "C02")
        self._cmp(world, op)

    def nontrivial(self, world, run, res):
        return self._nt


CHECK = C01()
