import importlib

_CACHE = {}


def load(name):
    """name like 'C04' -> the Check instance of checks/c04.py"""
    name = name.upper()
    if name not in _CACHE:
        mod = importlib.import_module("checks." + name.lower())
        _CACHE[name] = mod.CHECK
    return _CACHE[name]


ALL = ["C01", "C02", "C03", "C04", "C05", "C06", "C07", "C12", "C14", "C18", "C20"]
