"""C06 -- after a crash the database holds a prefix of what was done, minus a bounded tail.

Core target of the technique.  Histories of importer/editor/admin/reader traffic on a
file-backed store; the fault is process death, injected as a hypothetical branch at every
sampled SQL statement boundary and at every op return (file snapshot opened by the real
storage class), plus dirty restart-and-continue, clean restart, clock jumps (forward and
backward) and slow statements.  Oracle: prefix in issue order, durability lower bounds,
bounded tail, no split of bucket-level operations on the lazily-committing store."""
import copy
import os

from sim import actors, gen, seams
from sim.common import Violation, digest
from sim.crash import TAIL_BOUND, CrashWorld
from sim.rng import Streams, derive, stream
from sim.runner import Check

FILE_BACKENDS = ("sqlite", "sqlite-nolazy", "peewee", "sqlite")


class BlindEditor(actors.Party):
    name = "editor"

    def __init__(self, r, cfg, b):
        super().__init__(r, cfg)
        self.b = b
        self.last_rl = None

    def step(self):
        r = self.r
        x = r.random()
        if x < 0.3:
            return {"op": "replace", "b": self.b, "k": r.randrange(0, 1000), "ev": self.ev()}
        if x < 0.45:
            if r.random() < 0.25:
                # a watcher that goes quiet and then repeats its last heartbeat
                self.last_rl = self.ev()
                return [
                    {"op": "replace_last_blind", "b": self.b, "ev": copy.deepcopy(self.last_rl)},
                    {"op": "tick", "us": r.choice([2_000_000, 11_500_000, 20_000_000, 3600_000_000])},
                    {"op": "replace_last_blind", "b": self.b, "ev": copy.deepcopy(self.last_rl), "repeat": True},
                ]
            if self.last_rl is not None and r.random() < 0.3:
                # the very same heartbeat again (a watcher repeating itself): a write like any other
                return {"op": "replace_last_blind", "b": self.b, "ev": copy.deepcopy(self.last_rl), "repeat": True}
            self.last_rl = self.ev()
            return {"op": "replace_last_blind", "b": self.b, "ev": copy.deepcopy(self.last_rl)}
        s = {"op": "delete", "b": self.b}
        if r.random() < 0.1:
            s["never"] = True
        else:
            s["k"] = r.randrange(0, 1000)
        return s


class IdReader(actors.Party):
    name = "reader"

    def __init__(self, r, cfg, b):
        super().__init__(r, cfg)
        self.b = b

    def step(self):
        return {"op": "read", "b": self.b, "limit": self.r.choice([-1, -1, 1, 5])}


class Ticker(actors.Party):
    name = "ticker"

    def step(self):
        r, c = self.r, self.cfg
        prof = c["clock"]
        if r.random() < 0.15:
            return {"op": "slow", "stmt": r.randrange(1, 6), "us": r.choice([1_000, 2_000_000, 15_000_000])}
        if r.random() < 0.12:
            return {"op": "fault_commit"}
        if prof == "burst":
            us = r.randrange(0, 50_000)
        elif prof == "trickle":
            us = r.randrange(1_000_000, 30_000_000)
        elif prof == "idle":
            us = r.choice([60, 3600, 86400, 7 * 86400]) * 1_000_000
        else:  # skew
            us = r.choice([-3600_000_000, -30_000_000, -1_000_000, 5_000_000, 3600_000_000])
        return {"op": "tick", "us": us}


class BurstDeleter(actors.Party):
    """A purge: bulk-load n events, list them (learning their ids), delete them one by one.
    Deletions are buffered event writes too."""

    name = "deleter"

    def __init__(self, r, cfg, b):
        super().__init__(r, cfg)
        self.b = b

    def step(self):
        r = self.r
        n = r.choice([3, 10, 40, 70, 120])
        out = [{"op": "insertN", "b": self.b, "evs": [{"ev": self.ev()} for _ in range(n)]}, {"op": "read", "b": self.b, "limit": -1}]
        out += [{"op": "delete", "b": self.b, "k": r.randrange(0, 1000)} for _ in range(n)]
        return out


class Burst(actors.Party):
    """n consecutive single-event writes of one kind (a heartbeat stream rewriting the newest event,
    a run of replaces, inserts or deletes): the count threshold has to see every one of them."""

    name = "burst"

    def __init__(self, r, cfg, b):
        super().__init__(r, cfg)
        self.b = b
        self.k = 0

    def step(self):
        r, lat = self.r, self.cfg["lat"]
        n = r.choice([5, 20, 45, 55, 70, 110])
        kind = r.choice(["replace_last_blind", "replace", "insert1", "delete", "mixed"])
        out = []
        if kind in ("replace", "delete", "mixed"):
            m = n if kind == "delete" else r.choice([1, 3, 10])
            out.append({"op": "insertN", "b": self.b, "evs": [{"ev": self.ev()} for _ in range(m)]})
            out.append({"op": "read", "b": self.b, "limit": -1})
        if kind == "replace_last_blind":
            out.append({"op": "insert1", "b": self.b, "ev": self._newer()})
        for _ in range(n):
            k = kind if kind != "mixed" else r.choice(["replace", "insert1", "replace_last_blind"])
            if k == "replace_last_blind":
                out.append({"op": k, "b": self.b, "ev": self._newer()})
            elif k == "replace":
                out.append({"op": k, "b": self.b, "k": r.randrange(0, 1000), "ev": self.ev()})
            elif k == "insert1":
                out.append({"op": k, "b": self.b, "ev": self.ev()})
            else:
                out.append({"op": "delete", "b": self.b, "k": r.randrange(0, 1000)})
        return out

    def _newer(self):
        """An event newer (timestamp and end) than anything on the lattice or issued by this party before."""
        lat = self.cfg["lat"]
        self.k += 1
        E = self.ev()
        E["ts"] = lat["base"] + lat["step"] * (lat["n"] + 10) + 3_600_000_000 + self.k * 1_000_000
        E["off"] = 0
        E["dur"] = 0
        return E


class Rejected(actors.Party):
    """Operations the store must reject, issued while acknowledged writes are still buffered."""

    name = "rejected"

    def __init__(self, r, cfg, buckets):
        super().__init__(r, cfg)
        self.buckets = buckets
        self.first = True

    def step(self):
        r = self.r
        if self.first:
            # a bucket that is created and deleted at once leaves a stale handle behind for later
            self.first = False
            return [{"op": "create", "b": "tmp", "meta": actors.named(gen.meta(r, wild=False), self.cfg)}, {"op": "delete_bucket", "b": "tmp"}]
        x = r.random()
        if x < 0.25:
            return {"op": "delete_bucket", "b": r.choice(self.buckets + ["ghost"])}
        if x < 0.45:
            return {"op": "update", "b": "ghost", "fields": actors.update_fields(r)}
        b = r.choice(self.buckets + ["tmp", "tmp"])
        if r.random() < 0.5:
            return {"op": "insert_stale", "b": b, "ev": self.ev()}
        return {"op": "insert_stale", "b": b, "evs": [{"ev": self.ev()} for _ in range(r.randrange(1, 4))]}


class C06(Check):
    prop = "C06"
    level = "fault_enumeration"
    quick_runs = 1200
    thorough_runs = 50000
    chunk = 20
    rule = (
        "seeded histories (importer incl. bulk 1..300 and mixed upserts, editor incl. deletes and blind replace_last, admin "
        "create/update/delete-bucket, client reads, ticks incl. backward clock jumps, slow statements, 0-3 dirty restarts, "
        "clean restarts) on sqlite-lazy, sqlite with lazy commit disabled and peewee; within each history the crash points "
        "(every sampled SQL statement boundary + every op return) are enumerated and each snapshot is reopened by the real "
        "storage class; evaluations = runs; non-trivial = run with >=1 crash point at which issued != durable-by-contract "
        "(non-empty buffered tail or in-flight op); distinct = (backend, op-kind sequence)"
    )
    expected_probes = [
        "crash_inside_bulk", "crash_inside_delete_bucket", "fault_restart_dirty", "restart_lost_writes", "restart_clean", "fault_clock_backward",
        "fault_slow_statement", "bulk_over_50", "bulk_over_100", "bulk_mixed_upsert_insert", "delete_live", "replace_last_blind", "client_read", "delete_bucket_with_events", "rejected_op_with_buffered_writes", "fault_commit_failed", "page_cache_spill_run",
    ]
    assumptions = [
        "process death only: completed write()s survive (no power loss, torn pages, EIO or ENOSPC: Python's sqlite3 offers no VFS seam)",
        "the file-copy snapshot at a statement boundary is what a SIGKILLed process leaves (cross-validated against real SIGKILL in selftest crashstub / thorough tier)",
        "within one bulk call the store may order its elementary writes updates-first, inserts-first or in list order",
    ]
    stub_components = Check.stub_components + ["power-loss / I/O-error faults: not injected"]

    def make_world(self, run, rundir):
        dens = run.get("density", 1.0)
        w = CrashWorld(run["backend"], rundir, density=dens, sample_rng=stream(run.get("sample_seed", 0), "crash-sample"))
        w.diagnose = bool(run.get("diagnose"))
        w.allow_reuse = not run.get("spill")
        return w

    def gen(self, seed, idx, tier):
        rs = Streams(derive(seed, self.prop, idx))
        r = rs["cfg"]
        backend = FILE_BACKENDS[idx % len(FILE_BACKENDS)]
        nb = r.choice([1, 1, 2, 3])
        buckets = gen.bucket_ids(r, nb, unicode_ok=True)
        lat = gen.lattice(rs["lat"])
        uid = actors.UID()
        clock = r.choice(["burst", "burst", "trickle", "idle", "skew"])
        cfg = {"lat": lat, "alphabet": 3, "bulk_max": r.choice([4, 30, 70, 130, 300]), "upsert_p": r.choice([0.0, 0.2, 0.5]), "uid": uid, "clock": clock, "dirty_p": 0.5, "wild_meta": False, "always_name": True}
        steps = actors.creates(rs["meta"], buckets[: r.randrange(1, nb + 1)], cfg)
        parties = []
        for k, b in enumerate(buckets):
            parties.append(actors.Importer(rs["imp%d" % k], cfg, b))
            parties.append(BlindEditor(rs["edit%d" % k], cfg, b))
            parties.append(IdReader(rs["read%d" % k], cfg, b))
            if r.random() < 0.25:
                parties.append(BurstDeleter(rs["del%d" % k], cfg, b))
            if r.random() < 0.25:
                parties.append(Burst(rs["burst%d" % k], cfg, b))
        parties.append(actors.Admin(rs["admin"], cfg, buckets))
        parties.append(Rejected(rs["rej"], cfg, buckets))
        parties.append(Ticker(rs["tick"], cfg))
        from checks.c18 import Sibling

        parties.append(Sibling(rs["sib"], cfg))
        op = actors.Operator(rs["oper"], cfg)
        parties.append(op)
        weights = {
            "importer": r.choice([1.0, 2.0, 4.0]),
            "editor": r.choice([0.5, 1.5, 3.0]),
            "reader": r.choice([0.05, 0.3, 0.6]),
            "deleter": r.choice([0.1, 0.3]),
            "burst": r.choice([0.1, 0.3]),
            "rejected": r.choice([0.0, 0.2, 0.6]),
            "sibling": r.choice([0.0, 0.0, 0.3]),
            "admin": r.choice([0.1, 0.4, 0.8]),
            "ticker": 0.4,
            "operator": r.choice([0.0, 0.05, 0.15]),
        }
        nsteps = r.choice([3, 6, 12, 25, 50, 110] + ([220, 440] if tier == "thorough" else []))
        sched = actors.schedule(rs["sched"], parties, weights, nsteps)
        sched = [s for s in sched if s["op"] != "new_datastore"]
        # at most 3 dirty restarts per run
        nd = 0
        out = []
        for s in sched:
            if s["op"] == "restart_dirty":
                nd += 1
                if nd > 3:
                    continue
            out.append(s)
        steps += out
        if backend == "sqlite" and r.random() < 0.03:
            # page-cache spill: a buffered transaction larger than SQLite's 2 MB cache forces pages to disk before
            # COMMIT; whatever reaches the files must still be invisible to a process that reopens them
            b = buckets[0]
            steps = actors.creates(rs["meta"], [b], cfg)
            steps.append({"op": "insertN", "b": b, "evs": [{"ev": self._small(uid, lat, k)} for k in range(r.choice([60, 1500]))], "actor": "importer"})
            steps.append({"op": "read", "b": b, "limit": -1, "actor": "reader"})
            for k in range(r.choice([12, 24])):
                steps.append({"op": "delete", "b": b, "k": r.randrange(0, 100000), "actor": "editor"})
                E = self._small(uid, lat, 5000 + k)
                E["data"]["blob"] = "x" * 150_000
                steps.append({"op": "insert1", "b": b, "ev": E, "actor": "importer"})
            steps.append({"op": "restart_dirty", "actor": "operator"})
            steps.append({"op": "insert1", "b": b, "ev": self._small(uid, lat, 999), "actor": "importer"})
            return {"backend": backend, "steps": steps, "lat": lat, "density": 1.0, "sample_seed": 0, "tz_off_min": 0, "spill": True}
        if backend == "sqlite" and r.random() < 0.02:
            # a bucket with thousands of events is deleted: still one bucket-level operation
            b = buckets[0]
            steps = actors.creates(rs["meta"], [b], cfg)
            for k0 in range(0, 4400, 1100):
                steps.append({"op": "insertN", "b": b, "evs": [{"ev": self._small(uid, lat, k0 + k)} for k in range(1100)], "actor": "importer"})
            steps.append({"op": "delete_bucket", "b": b, "actor": "admin"})
            steps.append({"op": "create", "b": b, "meta": actors.named(gen.meta(r, wild=False), cfg), "actor": "admin"})
            return {"backend": backend, "steps": steps, "lat": lat, "density": 1.0, "sample_seed": 0, "tz_off_min": 0, "bigdelete": True}
        density = r.choice([1.0, 1.0, 0.5, 0.2]) if backend != "peewee" else r.choice([0.3, 0.1, 0.05])
        if len(steps) > 400:
            density = min(density, 0.05)
        elif len(steps) > 150:
            density = min(density, 0.2)
        return {"backend": backend, "steps": steps, "lat": lat, "density": density, "sample_seed": derive(seed, self.prop, idx, "sample"), "tz_off_min": r.choice([0, 0, -300, 180, 330]), "clock0": r.choice([1_700_000_000_000_000, 2_000_000_000_000_000])}

    @staticmethod
    def _small(uid, lat, k):
        return {"ts": lat["base"] + k * 1_000_000, "off": 0, "dur": 1_000_000, "data": {"u": uid.next()}}

    def start(self, world, run):
        if run.get("spill"):
            world.probes["page_cache_spill_run"] += 1
        if run.get("bigdelete"):
            world.probes["delete_bucket_with_thousands_of_events"] += 1
        seams.CLOCK.set_local_offset(run.get("tz_off_min", 0))
        world.open()

    def before(self, world, step, i):
        world.cur_step = i

    def after(self, world, step, out, i):
        pass

    def finish(self, world, run):
        world.cur_step = len(run["steps"])
        world.finish()

    def log_outcome(self, world, step, out):
        return [world.model.n, world.model.n_ret, world.model.d]

    def nontrivial(self, world, run, res):
        return world.stats["crash_points_with_nonempty_tail"] > 0

    def extra_result(self, world, run, res):
        res["extra"] = dict(world.stats)

    def extra_log(self, world, run, res):
        return [(p["step"], p["kind"], p["stmt"], p.get("found")) for p in world.evaluated]

    def post_batch(self, tier, seed):
        """Validate the crash stub against real process death (forked child, SIGKILL / os._exit at
        statement k, parent reopens the child's real file).  Disagreement = harness error."""
        from sim import selftest

        rc, compared, bad = selftest.crashstub(nruns=24 if tier == "quick" else 300, kills_per_run=4 if tier == "quick" else 8, seed=seed)
        errs = ["crash stub unfaithful: %d of %d real kills disagree with the snapshot stub" % (bad, compared)] if bad else []
        return errs, {"traces_validated_against_impl": compared, "real_process_deaths_compared_with_stub": compared, "stub_vs_real_disagreements": bad}

    def confirm(self, run, result):
        """Attribution guard: replay the minimised history once more with a read through the live connection
        after every operation.  If the live store ever differs from the reference write log, the model
        mispredicted what an operation did (C02/C04/C05's subject) and C06 does not report."""
        rd = os.path.join(seams.SCRATCH_ROOT, "confirm-diagnose")
        res = self.execute(dict(run, diagnose=True, density=0.0), rd)
        if res["status"] == "abandoned" and res.get("tag") in ("C02", "C04", "C05"):
            return False, "diagnostic replay: %s" % res["message"]
        return True, None

    def minimise_prepare(self, run):
        return dict(run, density=1.0)


CHECK = C06()
