"""C05 -- bucket lifecycle: create, list, describe, update, delete behave as a keyed map."""
from sim import actors, gen
from sim.common import Violation, canon, short
from sim.rng import Streams, derive
from sim.runner import Check
from sim.world import BACKENDS, meta_canon


class LifecycleAdmin(actors.Party):
    name = "admin"

    def __init__(self, r, cfg, buckets):
        super().__init__(r, cfg)
        self.buckets = buckets

    def step(self):
        r = self.r
        b = r.choice(self.buckets)
        x = r.random()
        if x < 0.25:
            return {"op": "create", "b": b, "meta": gen.meta(r, wild=True)}
        if x < 0.5:
            return {"op": "update", "b": b, "fields": actors.update_fields(r)}
        if x < 0.7:
            return {"op": "delete_bucket", "b": b}
        if x < 0.8:
            return {"op": "lookup", "b": b}
        if x < 0.85:
            return {"op": "other_store", "b": b, "ev": gen.event(r, self.cfg["lat"])}
        if x < 0.9:
            return {"op": "stale_read", "b": b, "kind": r.randrange(0, 4)}
        s = {"op": "describe", "b": b}
        if r.random() < 0.4:
            s["stale"] = True
        return s


class C05(Check):
    prop = "C05"
    level = "exploration"
    quick_runs = 10000
    thorough_runs = 250000
    rule = (
        "seeded histories of create (all metadata fields, unicode, nested data, name given or omitted, any UTC offset) / "
        "update of every non-empty field subset / delete / re-create / lookup / describe (fresh and stale handles) on "
        "live and missing ids, mixed with event inserts, clean restarts and new Datastore facades; after every step "
        "Datastore.buckets(), Bucket.metadata() and the event listing are compared with a dict model; non-trivial = a "
        "bucket holding events was deleted or a missing-bucket operation was issued; distinct = (backend, op-kind sequence)"
    )
    expected_probes = ["delete_with_events", "recreate_after_delete", "update_live", "missing_lookup", "missing_describe", "missing_update", "missing_delete", "stale_handle_describe", "restart_clean", "new_datastore", "name_omitted", "data_given", "event_observation_deferred", "other_store_in_same_process", "read_through_stale_handle", "no_lookup_by_harness"]
    assumptions = ["duplicate creation of a live id is not generated (the property is silent about it)", "update fields are non-empty strings / non-empty dicts (the property's quantifier)"]

    def gen(self, seed, idx, tier):
        lidx, bidx = divmod(idx, len(BACKENDS))
        rs = Streams(derive(seed, self.prop, lidx))
        r = rs["cfg"]
        backend = BACKENDS[bidx]
        nb = r.choice([1, 2, 3, 4])
        buckets = gen.bucket_ids(r, nb, unicode_ok=True)
        lat = gen.lattice(rs["lat"])
        cfg = {"lat": lat, "alphabet": 3, "bulk_max": r.choice([3, 8, 120]), "upsert_p": 0.0}
        parties = [LifecycleAdmin(rs["admin"], cfg, buckets)]
        for k, b in enumerate(buckets):
            parties.append(actors.Importer(rs["imp%d" % k], cfg, b))
        parties.append(actors.Operator(rs["oper"], {"dirty_p": 0.0}))
        weights = {"admin": 3.0, "importer": 0.6, "operator": 0.25}
        nsteps = r.choice([3, 6, 10, 20, 40] + ([80, 160] if tier == "thorough" else []))
        steps = actors.schedule(rs["sched"], parties, weights, nsteps)
        return {"backend": backend, "steps": steps, "lat": lat, "observe_every": r.choice([1, 1, 4, 9])}

    def start(self, world, run):
        super().start(world, run)
        self.model = {}  # bucket -> expected meta canon (name may be absent)
        self.count = {}
        self.ever = set()
        self._nt = False
        self._k = run.get("observe_every", 1)
        self._last_op = "start"
        self._last_missing = False

    @staticmethod
    def expected_meta(b, m):
        e = {"id": b, "type": m["type"], "client": m["client"], "hostname": m["hostname"], "created_us": m["created_us"], "data": canon(m.get("data") or {})}
        if "name" in m:
            e["name"] = m["name"]
        return e

    def fresh_store_not_empty(self, world):
        raise Violation("listing", "a freshly created store already lists buckets %s that were never created in it" % sorted(world.view), {"op": "start"})

    def _cmp_listing(self, world, op, handles=True):
        try:
            listing = world.ds.buckets()
        except Exception as e:
            raise Violation("listing", "after %s listing the buckets raised %r" % (op, e), {"op": op})
        if sorted(listing) != sorted(self.model):
            raise Violation("listing", "after %s the listing has buckets %s, expected %s" % (op, sorted(listing), sorted(self.model)), {"op": op})
        for b, want in self.model.items():
            got = meta_canon(listing[b])
            for k, v in want.items():
                if got.get(k) != v:
                    tag = "update_only_supplied" if op == "update" else "listing"
                    raise Violation(tag, "after %s bucket %r is listed with %s=%s, expected %s" % (op, b, k, short(got.get(k)), short(v)), {"op": op})
            if not handles:
                continue  # hands-off run: the harness looks no bucket up, so the store's handle registry is the client's doing alone
            try:
                md = meta_canon(world.ds[b].metadata())
            except Exception as e:
                raise Violation("listing", "after %s describing live bucket %r raised %r" % (op, b, e), {"op": op})
            for k, v in want.items():
                if md.get(k) != v:
                    raise Violation("listing", "after %s Bucket.metadata() of %r has %s=%s, expected %s" % (op, b, k, short(md.get(k)), short(v)), {"op": op})

    def _cmp_counts(self, world, op):
        try:
            view = world.refresh_view()
        except Exception as e:
            raise Violation("listing", "after %s reading back the buckets raised %r" % (op, e), {"op": op})
        for b, n in self.count.items():
            got = len(view.get(b, {}).get("events", []))
            if got != n:
                tag = "starts_empty" if n == 0 else "listing"
                raise Violation(tag, "after %s bucket %r holds %d events, expected %d" % (op, b, got, n), {"op": op})

    def after(self, world, step, out, i):
        op = step["op"]
        b = step.get("b")
        exc = out.get("exc")
        pr = world.probes
        live = b in self.model
        self._last_op = op
        if op in ("update", "delete_bucket", "lookup", "describe", "stale_read"):
            self._last_missing = not live
        if op == "create":
            if exc is not None:
                raise Violation("listing", "create_bucket raised %r" % (exc,), {"op": op})
            recreated = b in self.ever
            if recreated:
                pr["recreate_after_delete"] += 1
            self.ever.add(b)
            self.model[b] = self.expected_meta(b, step["meta"])
            self.count[b] = 0
            if "name" not in step["meta"]:
                pr["name_omitted"] += 1
            if "data" in step["meta"]:
                pr["data_given"] += 1
            # starts empty -- also through the handle returned by create_bucket
            try:
                n = len(out["ret"].get(limit=-1))
                c = out["ret"].get_eventcount()
            except Exception as e:
                raise Violation("starts_empty", "reading the new bucket raised %r" % (e,), {"op": op})
            if n != 0 or c != 0:
                raise Violation("delete_removes_events" if recreated else "starts_empty", "new bucket %r holds %d events (count %r)" % (b, n, c), {"op": op})
        elif op in ("insert1", "insertN"):
            if exc is not None:
                raise Violation("listing", "%s into live bucket raised %r" % (op, exc), {"op": op})
            self.count[b] += 1 if op == "insert1" else len(out["passed"])
        elif op == "update":
            if live:
                if exc is not None:
                    raise Violation("update_only_supplied", "update of live bucket raised %r" % (exc,), {"op": op})
                pr["update_live"] += 1
                for k, v in step["fields"].items():
                    self.model[b][k] = canon(v) if k == "data" else v
            else:
                pr["missing_update"] += 1
                self._nt = True
                if not isinstance(exc, ValueError):
                    raise Violation("missing_raises", "update of missing bucket %r: %s (ValueError expected)" % (b, "raised %r" % (exc,) if exc else "did not raise"), {"op": op})
        elif op == "delete_bucket":
            if live:
                if exc is not None:
                    raise Violation("listing", "delete of live bucket raised %r" % (exc,), {"op": op})
                if self.count[b] > 0:
                    pr["delete_with_events"] += 1
                    self._nt = True
                del self.model[b]
                del self.count[b]
            else:
                pr["missing_delete"] += 1
                self._nt = True
                if not isinstance(exc, ValueError):
                    raise Violation("missing_raises", "delete of missing bucket %r: %s (ValueError expected)" % (b, "raised %r" % (exc,) if exc else "did not raise"), {"op": op})
        elif op == "lookup":
            if live:
                if exc is not None:
                    raise Violation("listing", "lookup of live bucket raised %r" % (exc,), {"op": op})
            else:
                pr["missing_lookup"] += 1
                self._nt = True
                if not isinstance(exc, KeyError):
                    raise Violation("missing_raises", "lookup of missing bucket %r: %s (KeyError expected)" % (b, "raised %r" % (exc,) if exc else "returned %r" % (out["ret"],)), {"op": op})
        elif op == "describe":
            if step.get("stale"):
                pr["stale_handle_describe"] += 1
            if live:
                if exc is not None:
                    raise Violation("listing", "describe of live bucket raised %r" % (exc,), {"op": op})
                got = meta_canon(out["ret"])
                for k, v in self.model[b].items():
                    if got.get(k) != v:
                        raise Violation("listing", "describe of %r gives %s=%s, expected %s" % (b, k, short(got.get(k)), short(v)), {"op": op})
            else:
                pr["missing_describe"] += 1
                self._nt = True
                if not isinstance(exc, ValueError):
                    raise Violation("missing_raises", "describe of missing bucket %r: %s (ValueError expected)" % (b, "raised %r" % (exc,) if exc else "returned %s" % short(out["ret"])), {"op": op})
        elif op == "new_datastore":
            pr["new_datastore"] += 1
        elif op == "other_store":
            if out["ret"]:
                raise Violation("listing", "a newly created store object already lists buckets %s (state shared with another store)" % sorted(out["ret"]), {"op": op})
        # the whole map, after every step (missing-bucket operations change nothing)
        try:
            hands_off = self._k == 9
            full = self._k == 1 or i % self._k == 0 or (not hands_off and op in ("restart_clean", "new_datastore"))
            self._cmp_listing(world, op, handles=full or not hands_off)
            if not (full or not hands_off):
                world.probes["no_lookup_by_harness"] += 1
            if full:
                self._cmp_counts(world, op)
            else:
                # deferred observation: no event read (it would flush the lazily-committing store); only keep the
                # harness's notion of which buckets exist in step with the model
                world.probes["event_observation_deferred"] += 1
                for b2 in list(world.view):
                    if b2 not in self.model:
                        del world.view[b2]
                for b2 in self.model:
                    world.view.setdefault(b2, {"meta": None, "events": []})
        except Violation as v:
            if not live and op in ("update", "delete_bucket", "lookup", "describe", "stale_read"):
                raise Violation("missing_changes_nothing", v.message, {"op": op})
            if op == "delete_bucket":
                raise Violation("delete_removes_events" if v.tag == "starts_empty" else v.tag, v.message, {"op": op})
            raise

    def after_skip(self, world, step, out, i):
        pass

    def finish(self, world, run):
        try:
            self._cmp_counts(world, "end of history")
        except Violation as v:
            raise Violation("missing_changes_nothing" if self._last_missing else v.tag, v.message, {"op": self._last_op})

    def nontrivial(self, world, run, res):
        return self._nt


CHECK = C05()
