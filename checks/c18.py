"""C18 -- buffered writes are flushed once they are about ten seconds old.

sqlite with lazy commit (the one lazily-committing store) under the virtual clock.  After
every op returns the snapshot stub gives the durable state, so the harness knows black-box
the latest simulated instant f at which a flush can have happened.  Oracle: an event write
*issued* at t with t - f > 11 s (the code's 10 s + 10 % slack) is itself durable when it
returns (for a bulk call: its first elementary write and everything older -- the call may
flush midway and legitimately buffer what it writes right after that flush).  Nothing is required for t - f <= 11 s; early flushes are never a violation.  No
VIOLATION is printed unless the minimised schedule also fails under the REAL clock."""
import os

from sim import actors, gen, seams
from sim.common import Abandon, Violation
from sim.crash import CrashWorld
from sim.rng import Streams, derive, stream
from sim.runner import Check

from checks.c06 import BlindEditor, IdReader

AGE_US = 11_000_000


class FwdTicker(actors.Party):
    name = "ticker"

    def step(self):
        r, c = self.r, self.cfg
        prof = c["clock"]
        if r.random() < 0.12:
            return {"op": "slow", "stmt": r.randrange(1, 4), "us": r.choice([1_000, 3_000_000, 12_000_000, 40_000_000])}
        if r.random() < 0.1:
            return {"op": "fault_commit"}
        if prof == "burst":
            us = r.choice([r.randrange(0, 50_000), r.randrange(0, 50_000), r.randrange(9_000_000, 13_000_000)])
        elif prof == "trickle":
            us = r.randrange(1_000_000, 30_000_000)
        elif prof == "edge":
            us = r.choice([9_000_000, 9_999_000, 10_000_000, 10_001_000, 10_900_000, 11_000_000, 11_001_000, 11_500_000, 12_000_000])
        else:
            us = r.choice([60, 3600, 86400, 7 * 86400]) * 1_000_000
        return {"op": "tick", "us": us}


class Sibling(actors.Party):
    """Another, unrelated store in the same process: its flushes are its own business."""

    name = "sibling"

    def step(self):
        r = self.r
        k = r.choice(["read", "read", "write", "bulk"])
        return {"op": "sibling", "kind": k, "ev": {"ts": 1_600_000_000_000_000 + r.randrange(0, 1000) * 1_000_000, "off": 0, "dur": 0, "data": {}}}


class C18(Check):
    prop = "C18"
    level = "fault_enumeration"
    quick_runs = 16000
    thorough_runs = 400000
    chunk = 40
    max_confirm = 3
    rule = (
        "seeded write histories (single/bulk inserts, replaces, deletes, blind replace_last, occasional client reads, "
        "bucket ops, clean/dirty restarts) on sqlite-lazy under the virtual clock with forward-only inter-arrival "
        "profiles burst / trickle (1-30 s, slower than the count threshold) / edge (9-12 s around the age threshold) / "
        "idle (minutes-days) and slow statements that advance the clock inside an op; a crash point after every op "
        "return (snapshot reopened by the real storage class); non-trivial = run in which some event write was issued "
        ">11 s after the last possible flush while earlier writes were still buffered or it was itself a buffered write; "
        "distinct = (op-kind sequence, clock profile)"
    )
    expected_probes = ["age_requirement_checked", "age_requirement_with_older_buffered", "clock_idle_over_10s", "fault_slow_statement", "no_requirement_under_11s", "fault_restart_dirty", "delete_live", "client_read", "sibling_store_traffic", "fault_commit_failed"]
    assumptions = [
        "the store reads the wall clock through Python's datetime/time (the seam); every virtual-time failure is re-run under the real clock before it is reported",
        "'about ten seconds' is taken as: required beyond 11 s, nothing required up to 11 s",
        "the library has no background flusher and the property does not claim one: nothing is asserted while the store sits idle",
    ]

    def make_world(self, run, rundir):
        w = CrashWorld("sqlite", rundir, density=0.0, sample_rng=stream(0, "x"))
        w.strict = False
        w.diagnose = bool(run.get("diagnose"))
        return w

    def gen(self, seed, idx, tier):
        rs = Streams(derive(seed, self.prop, idx))
        r = rs["cfg"]
        nb = r.choice([1, 1, 2])
        buckets = gen.bucket_ids(r, nb)
        lat = gen.lattice(rs["lat"])
        uid = actors.UID()
        clock = r.choice(["burst", "trickle", "trickle", "edge", "edge", "idle"])
        cfg = {"lat": lat, "alphabet": 3, "bulk_max": r.choice([2, 4, 10, 60]), "upsert_p": r.choice([0.0, 0.2]), "uid": uid, "clock": clock, "dirty_p": 0.5, "wild_meta": False, "always_name": True}
        steps = actors.creates(rs["meta"], buckets, cfg)
        parties = []
        for k, b in enumerate(buckets):
            parties.append(actors.Importer(rs["imp%d" % k], cfg, b))
            parties.append(BlindEditor(rs["edit%d" % k], cfg, b))
            parties.append(IdReader(rs["read%d" % k], cfg, b))
        parties.append(actors.Admin(rs["admin"], cfg, buckets))
        parties.append(FwdTicker(rs["tick"], cfg))
        parties.append(actors.Operator(rs["oper"], cfg))
        parties.append(Sibling(rs["sib"], cfg))
        from checks.c06 import Rejected

        parties.append(Rejected(rs["rej"], cfg, buckets))
        weights = {"rejected": r.choice([0.0, 0.0, 0.3]), "sibling": r.choice([0.0, 0.0, 0.5, 1.5]), "importer": 3.0, "editor": r.choice([0.3, 1.0, 2.0]), "reader": r.choice([0.0, 0.1, 0.4]), "admin": r.choice([0.0, 0.1]), "ticker": r.choice([1.0, 2.5]), "operator": r.choice([0.0, 0.05])}
        nsteps = r.choice([3, 5, 8, 15, 30, 60] + ([120, 240] if tier == "thorough" else []))
        sched = [s for s in actors.schedule(rs["sched"], parties, weights, nsteps) if s["op"] != "new_datastore"]
        steps += sched
        return {"backend": "sqlite", "steps": steps, "lat": lat, "clock": clock, "tz_off_min": r.choice([0, 0, -300, 180, 330, -720]),
                # the simulated present lies before or after the real one (a clock value captured at import time
                # of the code under test is then in the simulated future or past)
                "clock0": r.choice([1_700_000_000_000_000, 2_000_000_000_000_000])}

    def start(self, world, run):
        if run.get("real_clock"):
            seams.CLOCK.real = True
        seams.CLOCK.set_local_offset(run.get("tz_off_min", 0))
        world.open()
        self._t0 = world.t_open
        self._nt = False

    def before(self, world, step, i):
        world.cur_step = i

    def finish(self, world, run):
        world.cur_step = len(run["steps"])
        world.finish()
        self.age_oracle(world)

    def age_oracle(self, world):
        pr = world.probes
        f = self._t0
        prev_j = 0
        epoch = 0
        for pt in world.evaluated:
            if pt["epoch"] != epoch:
                epoch = pt["epoch"]
                prev_j = 0
            if pt["kind"] == "restart":
                # a restart point belongs to the old epoch; the reopened store starts a fresh flush age
                f = pt["t_us"]
                continue
            if pt["kind"] != "return":
                continue
            if pt["found"] is None:
                raise Abandon("durable state matches no acceptable prefix (C06's subject): " + pt["fail"][1], "C06")
            j = pt["found"][1]
            if pt.get("event_write"):
                age = pt["t_issue"] - f
                if age > AGE_US:
                    pr["age_requirement_checked"] += 1
                    self._nt = True
                    if pt["n"] - prev_j > 1:
                        pr["age_requirement_with_older_buffered"] += 1
                    # a bulk call may flush after its first elementary write and buffer the rest (those were
                    # then written right after a flush): at least its first write and everything older is durable
                    if j < pt["n_before"] + 1:
                        raise Violation(
                            "age_flush",
                            "%s issued %.3f s after the last possible flush returned without being durable: %d of %d issued writes are in the reopened database, the call's own writes start at %d (step %d)"
                            % (pt["op"], age / 1e6, j, pt["n"], pt["n_before"] + 1, pt["step"]),
                            {"op": pt["op"], "step_index": pt["step"], "age_s": age / 1e6},
                        )
                else:
                    pr["no_requirement_under_11s"] += 1
            elif pt.get("write_call") and pt["t_issue"] - f > AGE_US:
                # a write call that matched nothing (delete of an id that is not there) has nothing of its own to make
                # durable, but it is a write arriving more than ten seconds after the last flush: what was buffered
                # before it must not stay at risk ("data at risk is bounded in age" under a trickle of such calls)
                pr["age_requirement_noop_write"] += 1
                if j < pt["n_before"]:
                    raise Violation(
                        "age_flush",
                        "%s (matching nothing) issued %.3f s after the last possible flush returned and left %d older acknowledged writes buffered (step %d)"
                        % (pt["op"], (pt["t_issue"] - f) / 1e6, pt["n_before"] - j, pt["step"]),
                        {"op": pt["op"], "step_index": pt["step"], "kind": "noop_write"},
                    )
            if j > prev_j or j == pt["n"]:
                f = pt["t_us"]
            prev_j = j

    def log_outcome(self, world, step, out):
        return [world.model.n, world.model.n_ret, seams.CLOCK.us if not seams.CLOCK.real else None]

    def extra_log(self, world, run, res):
        return [(p["step"], p["kind"], p.get("found"), p["t_us"] if not seams.CLOCK.real else None) for p in world.evaluated]

    def nontrivial(self, world, run, res):
        return self._nt

    def signature(self, world, run, res):
        from sim.common import digest

        return digest([run.get("clock"), res["opseq"]])

    def extra_result(self, world, run, res):
        res["extra"] = dict(world.stats)

    CANARY = [
        {"op": "create", "b": "b0", "meta": {"type": "t", "client": "c", "hostname": "h", "created_us": 1_600_000_000_000_000, "off": 0}},
        {"op": "insert1", "b": "b0", "ev": {"ts": 1_600_000_001_000_000, "off": 0, "dur": 0, "data": {"u": 1}}},
        {"op": "tick", "us": 11_500_000},
        {"op": "insert1", "b": "b0", "ev": {"ts": 1_600_000_002_000_000, "off": 0, "dur": 0, "data": {"u": 2}}},
    ]

    def confirm(self, run, result):
        """Dead-seam guard: virtual time alone never convicts.

        1. If the minimised schedule can be slept through (<= 40 s), it is re-run under the REAL clock and must
           fail the same way.
        2. Otherwise (e.g. day-long gaps) the seam's liveness is established by a canary: 'write, wait 11.5 s,
           write' is run under the real clock and under the virtual clock; if both give the same verdict the store
           demonstrably reads the clock through the seam, and the virtual-time failure stands."""
        res = self.execute(dict(run, diagnose=True), os.path.join(seams.SCRATCH_ROOT, "confirm-diagnose"))
        if res["status"] == "abandoned" and res.get("tag") in ("C02", "C04", "C05"):
            return False, "diagnostic replay: %s" % res["message"]
        total = sum(min(max(s.get("us", 0), 0), 11_500_000) for s in run["steps"] if s["op"] in ("tick", "slow"))
        exact = all(s.get("us", 0) <= 11_500_000 for s in run["steps"] if s["op"] in ("tick", "slow"))
        if exact and total <= 40_000_000:
            res = self.execute(dict(run, real_clock=True), os.path.join(seams.SCRATCH_ROOT, "confirm-real"))
            if res["status"] == "violation" and res["tag"] == result["tag"]:
                return True, "reproduced under the real clock (%.1f s of real sleeping)" % (total / 1e6)
            return False, "virtual-time failure did NOT reproduce under the real clock (status %s): the clock seam may be dead" % res["status"]
        canary = {"backend": "sqlite", "steps": self.CANARY, "clock": "canary", "tz_off_min": run.get("tz_off_min", 0)}
        v = self.execute(dict(canary), os.path.join(seams.SCRATCH_ROOT, "canary-virtual"))
        r = self.execute(dict(canary, real_clock=True), os.path.join(seams.SCRATCH_ROOT, "canary-real"))
        if v["status"] == r["status"] and v["status"] in ("ok", "violation"):
            return True, "schedule needs gaps that cannot be slept through; clock seam shown alive by canary agreement (virtual %s, real %s)" % (v["status"], r["status"])
        return False, "canary disagrees between virtual (%s) and real (%s) clock: the clock seam is dead; virtual-time failure not reported" % (v["status"], r["status"])


CHECK = C18()
