"""C02 -- every backend behaves like one simple per-bucket event list under any history.

Refinement against a trivial reference model (dict bucket -> {id: (ts, dur, data)}), checked
after every step of seeded multi-party histories.  The same symbolic step list is executed
on each backend (run index // 4 selects the list, % 4 the backend)."""
from sim import actors, gen
from sim.common import Violation, canon, expect_tuple, obs_event, short, sort_key_id
from sim.rng import Streams, derive
from sim.runner import Check
from sim.world import BACKENDS


class C02(Check):
    prop = "C02"
    level = "exploration"
    quick_runs = 8000
    thorough_runs = 200000
    rule = (
        "seeded histories of insert / bulk insert+upsert (live ids) / replace(live id) / (get(limit=1); replace_last) / "
        "delete(live or never-existing id) / reads / counts / lookups / clean restarts over 1-3 buckets on a coarse time "
        "lattice (ties of end instants and timestamps, zero-length events), the same list on each of 4 backend "
        "configurations; after every step the full dump of every bucket is compared with the reference list model; "
        "non-trivial = at least 3 mutating ops executed of at least 2 kinds; distinct = distinct (backend, op-kind sequence)"
    )
    expected_probes = ["tie_endtime", "tie_timestamp", "zero_length", "upsert_executed", "replace_last_executed", "delete_live", "delete_never", "delete_id_of_other_bucket", "byid_dead", "restart_clean", "bulk_over_50", "bulk_over_100", "bulk_same_object_twice", "bulk_same_id_twice"]
    assumptions = ["callers are serialised; (get(limit=1); replace_last) is issued as one atomic group, as documented"]

    def gen(self, seed, idx, tier):
        lidx, bidx = divmod(idx, len(BACKENDS))
        rs = Streams(derive(seed, self.prop, lidx))
        r = rs["cfg"]
        backend = BACKENDS[bidx]
        nb = r.choice([1, 1, 2, 3])
        buckets = gen.bucket_ids(r, nb)
        lat = gen.lattice(rs["lat"])
        if r.random() < 0.6:
            lat["n"] = min(lat["n"], 8)
        cfg = {"lat": lat, "alphabet": r.choice([1, 2, 3]), "bulk_max": r.choice([3, 8, 60, 130]), "upsert_p": r.choice([0.0, 0.2, 0.5]), "foreign_p": 0.0, "foreign_delete_p": 0.12, "dup_p": r.choice([0.0, 0.0, 0.15]), "again_p": 0.3, "never_p": 0.15, "wild": r.random() < 0.15, "wild_p": 0.3}
        steps = actors.creates(rs["meta"], buckets, cfg)
        parties = []
        for k, b in enumerate(buckets):
            parties.append(actors.Importer(rs["imp%d" % k], cfg, b))
            parties.append(actors.Editor(rs["edit%d" % k], cfg, b))
            parties.append(actors.Reader(rs["read%d" % k], cfg, b))
        parties.append(actors.Operator(rs["oper"], {"dirty_p": 0.0}))
        weights = {"importer": r.choice([1.0, 2.0]), "editor": r.choice([1.0, 2.0, 3.0]), "reader": 0.7, "operator": 0.12}
        nsteps = r.choice([3, 5, 8, 15, 30, 60] + ([120, 240] if tier == "thorough" else []))
        steps += actors.schedule(rs["sched"], parties, weights, nsteps)
        run = {"backend": backend, "steps": steps, "lat": lat}
        if r.random() < 0.05:
            run["clock0"] = 1_835_438_400_000_000  # 2028-02-29T12:00:00Z: the wall clock may well read a leap day
        return run

    # ------------------------------------------------------------------
    def start(self, world, run):
        super().start(world, run)
        self.model = {}  # bucket -> {id: (ts, dur, data)}
        self.dead = {}  # bucket -> set of ids of deleted events
        self.kinds = set()
        self.nmut = 0

    def _cmp(self, world, op):
        view = world.refresh_view()
        if sorted(view) != sorted(self.model):
            raise Violation("refine_contents", "bucket set %s differs from model %s after %s" % (sorted(view), sorted(self.model), op), {"op": op})
        for b in sorted(self.model):
            got = view[b]["events"]
            ids = [t[0] for t in got]
            if len(set(ids)) != len(ids):
                raise Violation("id_live_reuse", "bucket %r lists the same id twice after %s: %s" % (b, op, short(ids)), {"op": op})
            want = sorted(((i,) + c for i, c in self.model[b].items()), key=sort_key_id)
            if got != want:
                missing = [t for t in want if t not in got]
                extra = [t for t in got if t not in want]
                raise Violation("refine_contents", "bucket %r differs from the reference list after %s: missing=%s unexpected=%s" % (b, op, short(missing, 240), short(extra, 240)), {"op": op})

    def after(self, world, step, out, i):
        op = step["op"]
        b = step.get("b")
        exc = out.get("exc")
        m = self.model
        pr = world.probes
        if op == "create":
            if exc is not None:
                raise Violation("op_raised", "create_bucket raised %r" % (exc,), {"op": op})
            m[b] = {}
            self.dead[b] = set()
            world.refresh_view()
            return
        if op in ("restart_clean", "new_datastore"):
            self._cmp(world, op)
            return
        if exc is not None:
            raise Violation("op_raised", "%s with arguments inside the quantifier raised %r" % (op, exc), {"op": op})
        mb = m[b]
        if op == "insert1":
            ret = out["ret"]
            if ret is None or ret.id is None:
                raise Violation("refine_contents", "insert of one event returned no id: %r" % (ret,), {"op": op})
            if ret.id in mb:
                raise Violation("id_live_reuse", "insert returned id %r which belongs to a live event of the bucket" % (ret.id,), {"op": op})
            mb[ret.id] = expect_tuple(step["ev"])
            self._mut(op)
        elif op == "insertN":
            new = []
            for tid, E in out["targets"]:
                if tid is not None:
                    mb[tid] = expect_tuple(E)
                    pr["upsert_executed"] += 1
                else:
                    new.append(expect_tuple(E))
            if len(out["targets"]) > 50:
                pr["bulk_over_50"] += 1
            if len(out["targets"]) > 100:
                pr["bulk_over_100"] += 1
            # ids of bulk-inserted events are learnt from the store: fresh, distinct, contents as a multiset
            got = world.dump_bucket(b)
            fresh = [t for t in got if t[0] not in mb]
            if sorted(t[1:] for t in fresh) != sorted(new):
                raise Violation("refine_contents", "bulk insert of %d new events: store shows new events %s, expected contents %s" % (len(new), short(fresh, 240), short(sorted(new), 240)), {"op": op})
            ids = [t[0] for t in fresh]
            if len(set(ids)) != len(ids) or any(i is None for i in ids):
                raise Violation("id_live_reuse", "bulk insert assigned duplicate or missing ids %s" % short(ids), {"op": op})
            for t in fresh:
                mb[t[0]] = t[1:]
            self._mut(op)
        elif op == "replace":
            mb[out["tid"]] = expect_tuple(step["ev"])
            self._mut(op)
        elif op == "replace_last":
            newest = out["newest"]
            nid = newest[0]
            if nid not in mb or mb[nid] != newest[1:]:
                raise Violation("refine_contents", "limit-1 read returned %s which is not an event of the reference list" % short(newest), {"op": op})
            before = dict(mb)
            mb[nid] = expect_tuple(step["ev"])
            pr["replace_last_executed"] += 1
            self._mut(op)
            # attribute precisely: exactly the event the limit-1 read returned, same id, nothing else
            got = {t[0]: t[1:] for t in world.dump_bucket(b)}
            if got != mb:
                changed = sorted((i for i in set(got) | set(before) if got.get(i) != before.get(i)), key=str)
                raise Violation(
                    "replace_last_target",
                    "replace_last after a limit-1 read that returned id %r rewrote ids %s (expected exactly [%r]); newest was %s" % (nid, changed, nid, short(newest)),
                    {"op": op},
                )
        elif op == "delete":
            tid = out["tid"]
            if step.get("never"):
                pr["delete_never"] += 1
            elif "foreign" in step:
                # an id that never existed in this bucket (it is live in another one): nothing may change anywhere
                pr["delete_id_of_other_bucket"] += 1
                for ob in sorted(m):
                    got = {t[0]: t[1:] for t in world.dump_bucket(ob)}
                    if got != m[ob]:
                        gone = sorted((i for i in m[ob] if i not in got), key=str)
                        raise Violation("delete_exact", "delete(%r) on bucket %r, where that id never existed, removed ids %s of bucket %r" % (tid, b, gone, ob), {"op": op})
            else:
                pr["delete_live"] += 1
                before = dict(mb)
                del mb[tid]
                self.dead[b].add(tid)
                got = {t[0]: t[1:] for t in world.dump_bucket(b)}
                if got != mb:
                    gone = sorted((i for i in before if i not in got), key=str)
                    raise Violation("delete_exact", "delete(%r) removed ids %s (expected exactly [%r])" % (tid, gone, tid), {"op": op})
            self._mut(op)
        elif op == "read":
            lim = step.get("limit", -1)
            got = [obs_event(e) for e in out["ret"]]
            if lim < 0:
                want = sorted(((i,) + c for i, c in mb.items()), key=sort_key_id)
                if sorted(got, key=sort_key_id) != want:
                    raise Violation("refine_contents", "full read of %r returned %s, reference list holds %s" % (b, short(got, 240), short(want, 240)), {"op": op})
            elif lim == 0:
                if got:
                    raise Violation("refine_contents", "read with limit 0 returned events", {"op": op})
            else:
                if len(got) != min(lim, len(mb)) or any(t[0] not in mb or mb[t[0]] != t[1:] for t in got) or len({t[0] for t in got}) != len(got):
                    raise Violation("refine_contents", "read(limit=%d) of %r returned %s which is not %d distinct events of the reference list" % (lim, b, short(got, 240), min(lim, len(mb))), {"op": op})
        elif op == "count":
            if out["ret"] != len(mb):
                raise Violation("refine_count", "get_eventcount() of %r = %r, reference list holds %d" % (b, out["ret"], len(mb)), {"op": op})
        elif op == "byid":
            tid = out["tid"]
            ret = out["ret"]
            if tid in mb:
                if ret is None or obs_event(ret) != (tid,) + mb[tid]:
                    raise Violation("refine_byid", "get_by_id(%r) returned %s, reference holds %s" % (tid, short(ret and obs_event(ret)), short(mb[tid])), {"op": op})
            elif ret is not None:
                raise Violation("refine_byid", "get_by_id(%r) of an id that is not live returned %s" % (tid, short(obs_event(ret))), {"op": op})
        self._cmp(world, op)
        self._probe_state(world)
        # lookups of ids of deleted events (not re-used since) must find nothing
        if op == "delete" and not step.get("never") and "foreign" not in step:
            tid = out["tid"]
            ret = world.bucket(b).get_by_id(tid)
            pr["byid_dead"] += 1
            if ret is not None and tid not in mb:
                raise Violation("refine_byid", "get_by_id(%r) after delete returned %s" % (tid, short(obs_event(ret))), {"op": op})

    def _mut(self, op):
        self.kinds.add(op)
        self.nmut += 1

    def _probe_state(self, world):
        pr = world.probes
        for b, mb in self.model.items():
            ends = [c[0] + c[1] for c in mb.values()]
            tss = [c[0] for c in mb.values()]
            if len(set(ends)) != len(ends):
                pr["tie_endtime"] += 1
            if len(set(tss)) != len(tss):
                pr["tie_timestamp"] += 1
            if any(c[1] == 0 for c in mb.values()):
                pr["zero_length"] += 1

    def nontrivial(self, world, run, res):
        return self.nmut >= 3 and len(self.kinds) >= 2


CHECK = C02()
