#!/venv/bin/python
"""CLI of the aw-core deterministic simulation checks.

  check.py <ID> [--tier quick|thorough]     run one property's check
  check.py --replay <file>                   re-execute a replay file literally
  check.py setup                             verify the environment (nothing to build)
  check.py selftest determinism|all          harness self tests
"""
import argparse
import os
import sys

HERE = os.path.dirname(os.path.abspath(__file__))
if HERE not in sys.path:
    sys.path.insert(0, HERE)

if os.environ.get("PYTHONHASHSEED") is None:
    # fixed hash seed: one more source of nondeterminism pinned (re-exec once)
    os.environ["PYTHONHASHSEED"] = "0"
    os.execv(sys.executable, [sys.executable] + sys.argv)


def main():
    ap = argparse.ArgumentParser()
    ap.add_argument("what", nargs="?")
    ap.add_argument("arg", nargs="?")
    ap.add_argument("--tier", default=os.environ.get("VERIF_TIER", "quick"), choices=["quick", "thorough"])
    ap.add_argument("--replay")
    ap.add_argument("--runs", type=int)
    ap.add_argument("--seed", type=int)
    a = ap.parse_args()
    from sim import runner, seams

    if a.replay:
        return runner.replay_file(a.replay)
    if a.what == "setup":
        seams.import_repo()
        import jsonschema  # noqa

        print("setup ok: repo=%s scratch=%s clock seams=%d" % (seams.REPO, seams.SCRATCH_ROOT, len(seams.PATCHED_NAMES)))
        return 0
    if a.what == "selftest":
        from sim import selftest

        return selftest.main(a.arg or "all")
    if not a.what:
        ap.print_help()
        return 2
    return runner.run_check(a.what.upper(), a.tier, seed=a.seed, nruns=a.runs)


if __name__ == "__main__":
    try:
        rc = main()
    except SystemExit:
        raise
    except BaseException:
        import traceback

        print("HARNESS-ERROR " + traceback.format_exc())
        rc = 2
    sys.stdout.flush()
    sys.exit(rc)
