"""The simulated world: one real Datastore over a private file, driven step by step.

A *step* is a JSON dict (see DESIGN.md appendix A).  Targets are symbolic and resolved at
execution time against what the store currently shows (view mode) so that a step keeps its
meaning when the minimiser drops earlier steps; a step whose precondition does not hold is
skipped, never failed.
"""
import collections
import gc
import os
import shutil

import iso8601

from . import seams
from .common import (
    Abandon,
    HarnessError,
    canon,
    dt_to_us,
    mk_event,
    obs_event,
    sort_key_id,
    us_to_dt,
)

BACKENDS = ("memory", "sqlite", "sqlite-nolazy", "peewee")
FILE_BACKENDS = ("sqlite", "sqlite-nolazy", "peewee")


def meta_canon(m):
    """Canonical form of a bucket metadata dict as handed out by the store."""
    created = m.get("created")
    if isinstance(created, str):
        try:
            created_us = dt_to_us(iso8601.parse_date(created))
        except Exception:
            created_us = ("unparsable", created)
    elif created is None:
        created_us = None
    else:
        created_us = dt_to_us(created)
    return {
        "id": m.get("id"),
        "type": m.get("type"),
        "client": m.get("client"),
        "hostname": m.get("hostname"),
        "created_us": created_us,
        "name": m.get("name"),
        "data": canon(m.get("data")),
    }


class World:
    def __init__(self, backend, rundir):
        assert backend in BACKENDS, backend
        self.backend = backend
        self.rundir = rundir
        seams.assert_in_scratch(os.path.join(rundir, "x"))
        os.makedirs(rundir, exist_ok=True)
        self.gen = 0
        self.path = os.path.join(rundir, "db-0.sqlite")
        self.ds = None
        self.handles = {}  # bucket id -> Bucket object obtained at creation (may go stale)
        self.probes = collections.Counter()
        self.view = {}  # bucket id -> {"meta":..., "events":[(id,ts,dur,data)...] sorted by id}
        self.stale = {}  # bucket id -> Bucket handle of a bucket deleted since
        self.last_obj = None
        self.hb_obj = None
        self.others = []
        self.nother = 0

    # ------------------------------------------------------------------ store lifecycle
    def open(self):
        from aw_datastore import Datastore
        from aw_datastore.storages import MemoryStorage, PeeweeStorage, SqliteStorage

        if self.backend == "memory":
            self.ds = Datastore(MemoryStorage, testing=True)
        elif self.backend == "sqlite":
            self.ds = Datastore(SqliteStorage, testing=True, filepath=self.path)
        elif self.backend == "sqlite-nolazy":
            self.ds = Datastore(
                SqliteStorage, testing=True, filepath=self.path, enable_lazy_commit=False
            )
        else:
            self.ds = Datastore(PeeweeStorage, testing=True, filepath=self.path)
        self.handles = {}
        self.stale = {}
        return self.ds

    def _release(self):
        for o in self.others:
            c = getattr(o.storage_strategy, "conn", None)
            if c is not None:
                try:
                    c.close()
                except Exception:
                    pass
        self.others = []
        st = getattr(self.ds, "storage_strategy", None)
        self.ds = None
        self.handles = {}
        closed = False
        if st is not None:
            for attr in ("conn", "db"):
                c = getattr(st, attr, None)
                if c is not None and hasattr(c, "close"):
                    try:
                        c.close()
                        closed = True
                    except Exception:
                        pass
                    if attr == "db" and hasattr(c, "init") and hasattr(c, "deferred"):
                        # the simulated process ends here: a process-global peewee handle starts its next
                        # life unconfigured, as it would in a new OS process
                        try:
                            c.init(None)
                        except Exception:
                            pass
        st = None
        if not closed and self.backend != "memory":
            gc.collect()  # a refactored store without conn/db: rely on finalisers

    def flush(self):
        """Clean shutdown part 1: make everything durable through whatever the store offers."""
        st = self.ds.storage_strategy
        if hasattr(st, "commit"):
            st.commit()
        else:
            for b in list(self.ds.buckets()):
                self.ds[b].get(limit=1)
                break

    def close(self, clean=True):
        if self.ds is None:
            return
        if clean and self.backend != "memory":
            self.flush()
        self._release()

    def restart_clean(self):
        if self.backend == "memory":
            return False
        self.close(clean=True)
        self.open()
        return True

    def snapshot_files(self, dst_prefix):
        """Copy db + -wal + -journal as a process that died right now would leave them."""
        n = 0
        for suf in ("", "-wal", "-journal"):
            src = self.path + suf
            if os.path.exists(src):
                shutil.copyfile(src, dst_prefix + suf)
                n += 1
        return n

    def restart_dirty(self):
        """The process dies now: the next process finds the bytes on disk, nothing else."""
        if self.backend == "memory":
            return False
        self.gen += 1
        newpath = os.path.join(self.rundir, "db-%d.sqlite" % self.gen)
        self.snapshot_files(newpath)
        self._release()  # abandons the connection; uncommitted work is gone
        for suf in ("", "-wal", "-journal", "-shm"):
            try:
                os.unlink(self.path + suf)
            except OSError:
                pass
        self.path = newpath
        self.open()
        return True

    # ------------------------------------------------------------------ observation
    def dump_bucket(self, b):
        evs = [obs_event(e) for e in self.ds[b].get(limit=-1)]
        evs.sort(key=sort_key_id)
        return evs

    def dump(self):
        out = {}
        for b, m in self.ds.buckets().items():
            out[b] = {"meta": meta_canon(m), "events": self.dump_bucket(b)}
        return out

    def refresh_view(self):
        self.view = self.dump()
        return self.view

    def live_ids(self, b):
        return [t[0] for t in self.view.get(b, {}).get("events", [])]

    def resolve(self, b, k):
        ids = self.live_ids(b)
        if not ids:
            return None
        return ids[k % len(ids)]

    def resolve_foreign(self, b, k):
        """An id live in some other bucket and not live in b."""
        mine = set(self.live_ids(b))
        cand = []
        for ob in sorted(self.view):
            if ob == b:
                continue
            for i in self.live_ids(ob):
                if i not in mine:
                    cand.append((ob, i))
        if not cand:
            return None
        return cand[k % len(cand)]

    def never_id(self):
        m = 0
        for b in self.view:
            for i in self.live_ids(b):
                if isinstance(i, int) and i > m:
                    m = i
        return m + 1_000_003

    # ------------------------------------------------------------------ op execution
    def bucket(self, b):
        return self.ds[b]

    def exec_op(self, step):
        """Perform the real call(s) of one step.  Returns an outcome dict:
        {"skipped": reason} or {"ret": value, "exc": exception instance or None, ...}."""
        op = step["op"]
        fn = getattr(self, "op_" + op, None)
        if fn is None:
            raise HarnessError("unknown op %r" % op)
        return fn(step)

    @staticmethod
    def _call(f, *a, **k):
        try:
            return {"ret": f(*a, **k), "exc": None}
        except (HarnessError, Abandon):
            raise
        except Exception as e:  # the store rejected the call
            return {"ret": None, "exc": e}

    # bucket level
    def op_create(self, s):
        b = s["b"]
        if b in self.view:
            return {"skipped": "exists"}
        m = s["meta"]
        kw = {}
        if "name" in m:
            kw["name"] = m["name"]
        if "data" in m:
            kw["data"] = m["data"]  # deliberately the caller's own object
        out = self._call(
            self.ds.create_bucket,
            b,
            type=m["type"],
            client=m["client"],
            hostname=m["hostname"],
            created=us_to_dt(m["created_us"], m.get("off", 0)),
            **kw,
        )
        if out["exc"] is None:
            self.handles[b] = out["ret"]
        return out

    def op_update(self, s):
        f = dict(s["fields"])
        if "type" in f:
            f["type_id"] = f.pop("type")
        return self._call(self.ds.update_bucket, s["b"], **f)

    def op_delete_bucket(self, s):
        out = self._call(self.ds.delete_bucket, s["b"])
        if out["exc"] is None and s["b"] in self.handles:
            self.stale.setdefault(s["b"], self.handles.pop(s["b"]))  # keep the oldest handle
        return out

    def op_stale_read(self, s):
        """Read through the handle of a bucket deleted since.  What it returns or raises is the store's business;
        what matters is that nothing changes."""
        b = s["b"]
        h = self.stale.get(b)
        if h is None or b in self.view:
            return {"skipped": "no stale handle"}
        k = s.get("kind", 0) % 4
        if k == 0:
            out = self._call(h.get, limit=1)
        elif k == 1:
            out = self._call(h.get_eventcount)
        elif k == 2:
            out = self._call(h.get_by_id, 1)
        else:
            out = self._call(h.delete, 1)
        self.probes["read_through_stale_handle"] += 1
        return out

    def op_insert_stale(self, s):
        """Insert through a Bucket handle whose bucket has been deleted since (expected: rejected)."""
        b = s["b"]
        h = self.stale.get(b)
        if h is None or b in self.view:
            return {"skipped": "no stale handle"}
        if "evs" in s:
            evs = [mk_event(it["ev"]) for it in s["evs"]]
            out = self._call(h.insert, evs)
        else:
            out = self._call(h.insert, mk_event(s["ev"]))
        self.probes["insert_through_stale_handle"] += 1
        return out

    def op_lookup(self, s):
        return self._call(self.ds.__getitem__, s["b"])

    def op_describe(self, s):
        b = s["b"]
        if s.get("stale"):
            h = self.stale.get(b) or self.handles.get(b)
            if h is None:
                return {"skipped": "no handle"}
            return self._call(h.metadata)
        from aw_datastore.datastore import Bucket

        return self._call(Bucket(self.ds, b).metadata)

    # event level
    def _ev(self, s):
        """The Event object a step passes in.  With "reuse_obj" the client passes the very same
        Python object it passed (or was handed back) in its previous call -- a legal thing to do."""
        if s.get("reuse_obj") and self.last_obj is not None:
            self.probes["event_object_reused"] += 1
            return self.last_obj
        self.last_obj = mk_event(s["ev"])
        return self.last_obj

    def _own_id(self, s, b, ev, tid):
        """The payload of a replace is an event the client was handed out earlier (it copies one event's content over
        another): it carries the id of some live event of the bucket.  The addressed id is the argument's business."""
        if "own_id" in s and not s.get("reuse_obj"):
            oid = self.resolve(b, s["own_id"])
            if oid is not None:
                ev.id = oid
                if oid != tid:
                    self.probes["replace_payload_carries_other_id"] += 1

    def _bk(self, b):
        if b not in self.view:
            return None
        return self.ds[b]

    def op_insert1(self, s):
        bk = self._bk(s["b"])
        if bk is None:
            return {"skipped": "no bucket"}
        ev = self._ev(s)
        out = self._call(bk.insert, ev)
        out["passed"] = [ev]
        return out

    def op_insertN(self, s):
        b = s["b"]
        bk = self._bk(b)
        if bk is None:
            return {"skipped": "no bucket"}
        evs = []
        targets = []
        used = set()
        for item in s["evs"]:
            if item.get("dup_first") and evs and targets[0][0] is None:
                # the same Python object appears more than once in the list (as in `n * [Event(...)]`)
                evs.append(evs[0])
                targets.append((None, targets[0][1]))
                self.probes["bulk_same_object_twice"] += 1
                continue
            E = dict(item["ev"]) if "ev" in item else dict(item)
            tid = None
            if "upsert" in item:
                tid = self.resolve(b, item["upsert"])
                if tid is not None and tid in used and item.get("again"):
                    # the same live id a second time in one list: legal, the later entry wins
                    self.probes["bulk_same_id_twice"] += 1
                elif tid is None or tid in used:
                    tid = None
                    if item.get("strict"):
                        continue
                else:
                    used.add(tid)
            elif "foreign" in item:
                r = self.resolve_foreign(b, item["foreign"])
                if r is None or r[1] in used:
                    continue
                tid = r[1]
                used.add(tid)
                self.probes["foreign_id_used"] += 1
            E["id"] = tid
            evs.append(mk_event(E))
            targets.append((tid, E))
        out = self._call(bk.insert, evs)
        out["passed"] = evs
        out["targets"] = targets
        return out

    def op_replace(self, s):
        b = s["b"]
        bk = self._bk(b)
        if bk is None:
            return {"skipped": "no bucket"}
        if "foreign" in s:
            r = self.resolve_foreign(b, s["foreign"])
            if r is None:
                return {"skipped": "no foreign id"}
            tid = r[1]
            self.probes["foreign_id_used"] += 1
        else:
            tid = self.resolve(b, s["k"])
            if tid is None:
                return {"skipped": "empty"}
        ev = self._ev(s)
        self._own_id(s, b, ev, tid)
        out = self._call(bk.replace, tid, ev)
        out["tid"] = tid
        out["passed"] = [ev]
        return out

    def op_replace_last(self, s):
        """The documented pair: r = get(limit=1); replace_last(e)."""
        b = s["b"]
        bk = self._bk(b)
        if bk is None:
            return {"skipped": "no bucket"}
        if not self.view[b]["events"]:
            return {"skipped": "empty"}
        r = bk.get(limit=1)
        if not r:
            return {"skipped": "limit-1 read empty"}
        ev = self._ev(s)
        self._own_id(s, b, ev, obs_event(r[0])[0])
        out = self._call(bk.replace_last, ev)
        out["newest"] = obs_event(r[0])
        out["passed"] = [ev]
        return out

    def op_delete(self, s):
        b = s["b"]
        bk = self._bk(b)
        if bk is None:
            return {"skipped": "no bucket"}
        if s.get("never"):
            tid = self.never_id()
        elif "foreign" in s:
            r = self.resolve_foreign(b, s["foreign"])
            if r is None:
                return {"skipped": "no foreign id"}
            tid = r[1]
            self.probes["foreign_id_used"] += 1
        else:
            tid = self.resolve(b, s["k"])
            if tid is None:
                return {"skipped": "empty"}
        out = self._call(bk.delete, tid)
        out["tid"] = tid
        return out

    def op_heartbeat(self, s):
        """The standard ingestion loop for one heartbeat (atomic group)."""
        from aw_transform import heartbeat_merge

        b = s["b"]
        bk = self._bk(b)
        if bk is None:
            return {"skipped": "no bucket"}
        hb = mk_event(s["ev"])
        if s.get("hb_reuse") is not None and self.hb_obj is not None and self.hb_obj[0] == s["hb_reuse"]:
            hb = self.hb_obj[1]
            self.probes["heartbeat_object_fed_to_two_buckets"] += 1
        if s.get("hb_tag") is not None:
            self.hb_obj = (s["hb_tag"], hb)
        last = bk.get(limit=1)
        if last:
            merged = heartbeat_merge(last[0], hb, s["pulse"])
            if merged is not None:
                out = self._call(bk.replace_last, merged)
                out["merged"] = True
                return out
        out = self._call(bk.insert, hb)
        out["merged"] = False
        return out

    # reads
    def _win(self, s):
        st = us_to_dt(s["start"], s.get("soff", 0)) if s.get("start") is not None else None
        en = us_to_dt(s["end"], s.get("eoff", 0)) if s.get("end") is not None else None
        return st, en

    def op_read(self, s):
        bk = self._bk(s["b"])
        if bk is None:
            return {"skipped": "no bucket"}
        st, en = self._win(s)
        return self._call(bk.get, limit=s.get("limit", -1), starttime=st, endtime=en)

    def op_count(self, s):
        bk = self._bk(s["b"])
        if bk is None:
            return {"skipped": "no bucket"}
        st, en = self._win(s)
        return self._call(bk.get_eventcount, starttime=st, endtime=en)

    def op_byid(self, s):
        b = s["b"]
        bk = self._bk(b)
        if bk is None:
            return {"skipped": "no bucket"}
        if s.get("never"):
            tid = self.never_id()
        else:
            tid = self.resolve(b, s["k"])
            if tid is None:
                return {"skipped": "empty"}
        out = self._call(bk.get_by_id, tid)
        out["tid"] = tid
        return out

    # operator
    def op_restart_clean(self, s):
        if not self.restart_clean():
            return {"skipped": "volatile backend"}
        self.probes["restart_clean"] += 1
        return {"ret": None, "exc": None}

    def op_restart_dirty(self, s):
        if not self.restart_dirty():
            return {"skipped": "volatile backend"}
        self.probes["restart_dirty"] += 1
        return {"ret": None, "exc": None}

    def op_new_datastore(self, s):
        """A new Datastore facade over the same storage (handle cache rebuilt)."""
        from aw_datastore import Datastore

        st = self.ds.storage_strategy
        self.ds = Datastore(lambda testing=True, **k: st, testing=True)
        self.handles = {}
        return {"ret": None, "exc": None}

    def op_other_store(self, s):
        """Another store object of the same kind in the same process (its own file / its own memory).
        Returns what it lists when new; then a bucket with the given id is created and fed there."""
        from aw_datastore import Datastore
        from aw_datastore.storages import MemoryStorage, SqliteStorage

        if self.backend == "peewee":
            return {"skipped": "peewee has one process-global handle: one store per process"}
        self.nother += 1
        if self.backend == "memory":
            ds2 = Datastore(MemoryStorage, testing=True)
        else:
            ds2 = Datastore(SqliteStorage, testing=True, filepath=os.path.join(self.rundir, "other-%d.sqlite" % self.nother), enable_lazy_commit=self.backend == "sqlite")
        listing = dict(ds2.buckets())
        # a few other buckets first, so that the shared id does not sit at the same row in both stores
        for k in range(self.nother % 3 + 1):
            self._call(ds2.create_bucket, "zz-pad-%d" % k, type="other", client="other", hostname="other", created=us_to_dt(1_600_000_000_000_000), name="pad")
        out = self._call(ds2.create_bucket, s["b"], type="other", client="other", hostname="other", created=us_to_dt(1_600_000_000_000_000), name="other store")
        if out["exc"] is None:
            self._call(out["ret"].insert, mk_event(s["ev"]))
        self.others.append(ds2)
        if len(self.others) > 3:
            old = self.others.pop(0)
            c = getattr(old.storage_strategy, "conn", None)
            if c is not None:
                c.close()
        self.probes["other_store_in_same_process"] += 1
        return {"ret": listing, "exc": None}

    def op_tick(self, s):
        seams.CLOCK.advance(s["us"])
        return {"ret": None, "exc": None}
