"""Crash engine: elementary write log, prefix oracle, statement-boundary crash points.

The model knows, for every op, the elementary writes it consists of (event inserted / rewritten
/ removed, bucket row put / removed) *before* the op runs.  Every event carries a unique tag
``data["u"]`` so each stored value is attributable to exactly one write and a reopened dump
can be matched against prefix states by an incremental 64-bit state hash.

A crash point is every sampled SQL statement boundary (trace callback, fired before the
statement runs) and every op return.  At a crash point the database files are copied
(db + -wal + -journal: exactly what a SIGKILLed process leaves, since completed write()s
survive process death), deduplicated by content hash, and later opened by the *real* storage
class and dumped through the public API.
"""
import collections
import hashlib
import os
import shutil

from . import seams
from .common import Abandon, HarnessError, Violation, canon, expect_tuple, mk_event, obs_event, short, us_to_dt
from .world import World, meta_canon

MASK = (1 << 64) - 1
ORDERS = ("upd_first", "ins_first", "list")
TAIL_BOUND = 60  # documented "about 50" (code: flush when the buffer exceeds 50) + 20% slack


def _h(x):
    return hash(x) & MASK


def ev_item(b, content):
    return _h(("E", b, content))


def meta_item(b, meta):
    return _h(("B", b, tuple(sorted((k, v) for k, v in meta.items()))))


def expected_meta(b, m):
    return {"id": b, "type": m["type"], "client": m["client"], "hostname": m["hostname"], "created_us": m["created_us"], "name": m.get("name"), "data": canon(m.get("data") or {})}


class W:
    """One elementary write."""

    __slots__ = ("kind", "b", "uid", "old", "new", "op", "is_event", "new_uid")

    def __init__(self, kind, b, uid, old, new, op, is_event, new_uid=None):
        # uid: key of the row before the write (None for an insert); new_uid: key after it
        self.kind, self.b, self.uid, self.old, self.new, self.op, self.is_event = kind, b, uid, old, new, op, is_event
        self.new_uid = new_uid if new_uid is not None else uid

    def delta(self):
        d = 0
        if self.kind == "ev":
            if self.old is not None:
                d -= ev_item(self.b, self.old)
            if self.new is not None:
                d += ev_item(self.b, self.new)
        else:
            if self.old is not None:
                d -= meta_item(self.b, self.old)
            if self.new is not None:
                d += meta_item(self.b, self.new)
        return d & MASK


class CrashModel:
    def __init__(self):
        self.meta = {}  # b -> meta dict
        self.events = {}  # b -> {uid: content}
        self.ids = {}  # uid -> id (when known)
        self.epoch = 0
        self._reset_chains(0)

    def _reset_chains(self, h0):
        self.chains = {o: [] for o in ORDERS}  # order -> list of W
        self.hashes = {o: [h0] for o in ORDERS}  # order -> hash after j writes
        self.evcount = {o: [0] for o in ORDERS}  # order -> prefix count of event writes
        self.n_ret = 0  # writes belonging to returned ops
        self.d = 0  # durability lower bound (index)
        self.groups = []  # (start, end) of bucket-level multi-write groups
        self.op_bounds = [0]

    def state_hash(self):
        h = 0
        for b, m in self.meta.items():
            h += meta_item(b, m)
        for b, evs in self.events.items():
            for c in evs.values():
                h += ev_item(b, c)
        return h & MASK

    @property
    def n(self):
        return len(self.chains[ORDERS[0]])

    # -- applying
    def _apply(self, w):
        if w.kind == "ev":
            if w.old is not None:
                del self.events[w.b][w.uid]
            if w.new is not None:
                self.events[w.b][w.new_uid] = w.new
        else:
            if w.new is None:
                del self.meta[w.b]
                del self.events[w.b]
            else:
                self.meta[w.b] = w.new
                self.events.setdefault(w.b, {})

    def _undo(self, w):
        if w.kind == "ev":
            if w.new is not None:
                del self.events[w.b][w.new_uid]
            if w.old is not None:
                self.events[w.b][w.uid] = w.old
        else:
            if w.old is None:
                del self.meta[w.b]
                self.events.pop(w.b, None)
            else:
                self.meta[w.b] = w.old
                self.events.setdefault(w.b, {})

    def issue(self, variants, bucket_level=False):
        """Append one op's writes.  variants: dict order -> list of W (same multiset)."""
        start = self.n
        for o in ORDERS:
            ws = variants[o]
            hs, ec, ch = self.hashes[o], self.evcount[o], self.chains[o]
            for w in ws:
                ch.append(w)
                hs.append((hs[-1] + w.delta()) & MASK)
                ec.append(ec[-1] + (1 if w.is_event else 0))
        for w in variants[ORDERS[0]]:
            self._apply(w)
        end = self.n
        if bucket_level and end - start > 1:
            self.groups.append((start, end))
        return start, end

    def returned(self, bucket_level, autocommit):
        self.n_ret = self.n
        self.op_bounds.append(self.n)
        if bucket_level or autocommit:
            self.d = self.n

    # -- oracle
    def find(self, hD, n, n_ret, d, lazy):
        """All (order, j) with S_j == D, j <= n, plus the verdict."""
        cands = []
        for o in ORDERS:
            hs = self.hashes[o]
            for j in range(min(n, len(hs) - 1), -1, -1):
                if hs[j] == hD:
                    cands.append((o, j))
        if not cands:
            return None, "prefix", "the reopened database matches no prefix of the writes issued"
        ok = [c for c in cands if c[1] >= d]
        if not ok:
            jm = max(j for _, j in cands)
            return None, "durable", "best matching prefix has %d of the writes but %d were durable-by-contract when the process died" % (jm, d)
        ok2 = []
        for o, j in ok:
            missing = self.evcount[o][n_ret] - self.evcount[o][j] if j < n_ret else 0
            if missing <= TAIL_BOUND:
                ok2.append((o, j, missing))
        if not ok2:
            o, j = max(ok, key=lambda c: c[1])
            missing = self.evcount[o][n_ret] - self.evcount[o][j]
            return None, "tail_bound", "%d event writes of completed operations are missing after the crash (documented bound about 50)" % missing
        if lazy:
            ok3 = [c for c in ok2 if not any(s < c[1] < e for s, e in self.groups)]
            if not ok3:
                return None, "atomic_group", "the crash split a bucket-level operation: prefix index %d falls inside a delete-bucket group" % ok2[0][1]
            ok2 = ok3
        best = max(ok2, key=lambda c: c[1])
        return best, None, None

    def rollback(self, order, j):
        """The store restarted from S_j (in chain 'order'): the model follows."""
        ch = self.chains[order]
        # the live state is S_n of every chain; undo chain 'order' down to j
        for w in reversed(ch[j:]):
            self._undo(w)
        self.epoch += 1
        self._reset_chains(self.state_hash())

    def summary(self):
        return {b: len(e) for b, e in sorted(self.events.items())}


class CrashWorld(World):
    """World in model mode: no harness-induced reads; targets resolved against the model."""

    def __init__(self, backend, rundir, density=1.0, sample_rng=None):
        super().__init__(backend, rundir)
        self.model = CrashModel()
        self.autocommit = backend in ("peewee", "sqlite-nolazy")
        self.lazy = backend == "sqlite"
        self.density = density
        self.sample_rng = sample_rng
        self.pending = []  # crash points awaiting evaluation
        self.snaps = {}  # content key -> snapshot prefix
        self.dumps = {}  # content key -> (hash, dump summary)
        self.cur_step = -1
        self.cur_op = None
        self.stmt_in_op = 0
        self.dml_in_op = 0
        self.inflight = False
        self.restarted = False
        self.slow = None  # (statement index, us) for the next op
        self.stats = collections.Counter()
        self.last_point = None
        self.sib = None
        self.sibgen = 0
        self._in_txn = False
        self._files_dirty = True
        self._last_key = None
        self.gstmt = 0  # statements of the live store since the run began
        self.kill_at = None  # (global statement number, mode): really die there (selftest crashstub)
        self.allow_reuse = True  # snapshot reuse inside a transaction (off in page-cache-spill runs)
        self.fault_next = False  # arm a failing commit for the next single-event operation
        self.diagnose = False  # diagnostic replay: compare the live view with the model after every op
        self.strict = True  # raise on the first failing crash point (C06); C18 turns this off
        self.evaluated = []
        self.t_open = None

    # ------------------------------------------------------------------ lifecycle
    def open(self):
        seams.STMT.callback = None
        ds = super().open()
        seams.STMT.callback = self._on_stmt
        self._in_txn = False
        self._files_dirty = True
        self._last_key = None
        self.t_open = seams.CLOCK.peek()
        return ds

    def _release(self):
        seams.STMT.callback = None
        if self.sib is not None:
            st = getattr(self.sib, "storage_strategy", None)
            self.sib = None
            c = getattr(st, "conn", None)
            if c is not None:
                try:
                    c.close()
                except Exception:
                    pass
        super()._release()

    def mop_sibling(self, s):
        """Traffic on a second, unrelated sqlite store in the same process (another file)."""
        from aw_datastore import Datastore
        from aw_datastore.storages import SqliteStorage

        cb, seams.STMT.callback = seams.STMT.callback, None
        try:
            if self.sib is None:
                self.sibgen += 1
                self.sib = Datastore(SqliteStorage, testing=True, filepath=os.path.join(self.rundir, "sibling-%d.sqlite" % self.sibgen))
                self.sib.create_bucket("s", type="t", client="c", hostname="h", created=us_to_dt(1_600_000_000_000_000))
            bk = self.sib["s"]
            if s["kind"] == "read":
                bk.get(limit=1)
            elif s["kind"] == "write":
                bk.insert(mk_event(s["ev"]))
            else:
                bk.insert([mk_event(s["ev"]) for _ in range(3)])
        finally:
            seams.STMT.callback = cb
        self.probes["sibling_store_traffic"] += 1
        return {"ret": None, "exc": None}

    # ------------------------------------------------------------------ crash points
    def _on_stmt(self, sql, path):
        if path != self.path:
            return
        self.stmt_in_op += 1
        self.gstmt += 1
        if self.inflight and sql.lstrip()[:7].upper().startswith(("INSERT", "UPDATE", "DELETE", "REPLACE", "WITH")):
            self.dml_in_op += 1
        if self.kill_at is not None and self.kill_at[0] == self.gstmt and self.inflight:
            if self.kill_at[1] == "exit":
                os._exit(0)
            os.kill(os.getpid(), 9)
        if self.slow is not None and self.inflight and self.stmt_in_op == self.slow[0]:
            seams.CLOCK.advance(self.slow[1])
            self.probes["fault_slow_statement"] += 1
            self.slow = None
        if not self.inflight:
            return
        head = sql.lstrip()[:9].upper()
        take = self.density >= 1.0
        if not take and self.density > 0:
            take = head.startswith("COMMIT") or self.sample_rng.random() < self.density
        if take:
            # Sampling heuristic (not an oracle): if every statement since the last hashed snapshot ran
            # inside an open transaction, SQLite has written nothing that a reopened process would see
            # (cache spills are frames without a commit marker), so the previous snapshot stands.
            self.crash_point("stmt", reuse=self.allow_reuse and not self._files_dirty)
            self._files_dirty = False
        # what statement k (about to run) does to the files, for the boundary before statement k+1
        if head.startswith(("BEGIN", "SAVEPOINT")):
            self._in_txn = True
        elif head.startswith(("COMMIT", "END", "ROLLBACK", "RELEASE")):
            self._in_txn = False
            self._files_dirty = True
        elif not self._in_txn:
            self._files_dirty = True  # autocommit statement

    def _snapshot_key(self):
        h = hashlib.blake2b(digest_size=16)
        parts = []
        for suf in ("", "-wal", "-journal"):
            p = self.path + suf
            try:
                with open(p, "rb") as f:
                    data = f.read()
            except FileNotFoundError:
                data = None
            parts.append(data)
            h.update(b"\x00" if data is None else b"\x01" + len(data).to_bytes(8, "big"))
            if data:
                h.update(data)
        return h.hexdigest(), parts

    def crash_point(self, kind, reuse=False):
        """Hypothetical branch: the process dies now."""
        if reuse and self._last_key is not None:
            key, parts = self._last_key, None
            self.stats["snapshots_reused_inside_transaction"] += 1
        else:
            key, parts = self._snapshot_key()
            self._last_key = key
        if key not in self.snaps:
            prefix = os.path.join(self.rundir, "snap-%s.sqlite" % key)
            for suf, data in zip(("", "-wal", "-journal"), parts):
                if data is not None:
                    with open(prefix + suf, "wb") as f:
                        f.write(data)
            self.snaps[key] = prefix
            self.stats["distinct_snapshots"] += 1
        m = self.model
        pt = {
            "key": key,
            "kind": kind,
            "epoch": m.epoch,
            "n": m.n,
            "n_ret": m.n_ret,
            "d": m.d,
            "step": self.cur_step,
            "op": self.cur_op,
            "stmt": self.stmt_in_op if kind == "stmt" else None,
            "gstmt": self.gstmt,
            "gen": self.gen,
            "t_us": seams.CLOCK.peek(),
        }
        self.pending.append(pt)
        self.stats["crash_points"] += 1
        if kind == "stmt":
            self.stats["crash_points_inside_ops"] += 1
            if self.cur_op == "insertN":
                self.probes["crash_inside_bulk"] += 1
            if self.cur_op == "delete_bucket":
                self.probes["crash_inside_delete_bucket"] += 1
        if m.n > m.n_ret or m.n_ret > m.d:
            self.stats["crash_points_with_nonempty_tail"] += 1
        self.last_point = pt
        return pt

    def _dump_snapshot(self, key):
        """Open a snapshot with the real storage class; dump through the public API."""
        if key in self.dumps:
            return self.dumps[key]
        assert self.ds is None, "snapshots are verified while no live store is open"
        prefix = self.snaps[key]
        w = World(self.backend, self.rundir)
        w.path = prefix
        cb, seams.STMT.callback = seams.STMT.callback, None
        probe = None
        try:
            try:
                w.open()
                d = w.dump()
            except Exception as e:
                # the file a crashed process left behind cannot even be opened / read by the real storage class
                self.dumps[key] = (None, {}, {}, "reopening the crashed database raised %r" % (e,))
                self.stats["snapshots_reopened"] += 1
                try:
                    w.close(clean=False)
                except Exception:
                    pass
                return self.dumps[key]
            # recovery probe: the reopened store must behave like a store holding exactly that state --
            # a bucket created now is born empty (rows orphaned by a half-done operation must not resurface)
            try:
                pb = w.ds.create_bucket("zz-recovery-probe", type="probe", client="probe", hostname="probe", created=us_to_dt(1_600_000_000_000_000))
                born = len(pb.get(limit=-1))
                if born:
                    probe = "a bucket created after reopening the crashed database is born with %d events" % born
            except Exception as e:
                probe = "creating a bucket after reopening the crashed database raised %r" % (e,)
            w.close(clean=False)
        finally:
            seams.STMT.callback = cb
        h = 0
        uids = {}
        for b, v in d.items():
            h += meta_item(b, {k: v["meta"][k] for k in ("id", "type", "client", "hostname", "created_us", "name", "data")})
            for t in v["events"]:
                h += ev_item(b, t[1:])
        res = (h & MASK, {b: len(v["events"]) for b, v in sorted(d.items())}, d, probe)
        self.dumps[key] = res
        self.stats["snapshots_reopened"] += 1
        for suf in ("", "-wal", "-journal", "-shm"):
            try:
                os.unlink(prefix + suf)
            except OSError:
                pass
        return res

    def evaluate_pending(self, strict=None):
        """Evaluate every pending crash point of the current epoch.  Live store must be closed.
        Returns the list of evaluated points (each with 'found' and 'dump')."""
        if strict is None:
            strict = self.strict
        m = self.model
        done = []
        for pt in self.pending:
            hD, summ, dump, probe = self._dump_snapshot(pt["key"])
            if hD is None:
                best, tag, msg = None, "prefix", probe
            else:
                best, tag, msg = m.find(hD, pt["n"], pt["n_ret"], pt["d"], self.lazy)
            if best is not None and probe:
                best, tag, msg = None, "recovery_probe", probe
                self.stats["recovery_probe_failed"] += 1
            self.stats["crash_points_evaluated"] += 1
            pt["found"] = best
            pt["dump"] = dump
            if best is None:
                if tag == "durable":
                    tag = "durable_autocommit" if (self.autocommit and not pt.get("bucket_level")) else "durable_bucket_op"
                where = "at statement %s inside %s" % (pt["stmt"], pt["op"]) if pt["kind"] == "stmt" else "right after %s returned" % pt["op"]
                text = "crash %s (step %d): %s; reopened db holds %s, model after all issued writes holds %s (issued=%d returned=%d durable-by-contract=%d)" % (
                    where, pt["step"], msg, summ, m.summary(), pt["n"], pt["n_ret"], pt["d"])
                pt["fail"] = (tag, text)
                if strict:
                    raise Violation(tag, text, {"op": pt["op"], "step_index": pt["step"], "crash_kind": pt["kind"], "stmt": pt["stmt"]})
            elif best[2] > 0:
                self.stats["crash_points_lost_tail_events"] += 1
            done.append(pt)
        self.pending = []
        self.snaps = {}
        self.dumps = {}
        self.evaluated.extend(done)
        return done

    # ------------------------------------------------------------------ restarts
    def _restart(self, dirty):
        if self.backend == "memory":
            return False
        self.cur_op = "restart_dirty" if dirty else "restart_clean"
        if not dirty:
            self.flush()
        pt = self.crash_point("restart")
        self.gen += 1
        newpath = os.path.join(self.rundir, "db-%d.sqlite" % self.gen)
        self.snapshot_files(newpath)
        hL = self.live_hash()
        self._release()
        for suf in ("", "-wal", "-journal", "-shm"):
            try:
                os.unlink(self.path + suf)
            except OSError:
                pass
        self.path = newpath
        done = self.evaluate_pending(strict=False)
        self.attribute(hL, done)
        last = done[-1]
        if last["found"] is None:
            raise Abandon("restart point matches no acceptable prefix: " + last["fail"][1], "C06")
        o, j, missing = last["found"]
        if dirty and j < self.model.n:
            self.probes["restart_lost_writes"] += 1
        self.model.rollback(o, j)
        # ids of events that survive stay known; learn the rest from the dump
        for b, v in last["dump"].items():
            for t in v["events"]:
                u = _uid_of(t)
                if u is not None:
                    self.model.ids[u] = t[0]
        self.open()
        self.restarted = True
        return True

    def restart_dirty(self):
        return self._restart(True)

    def restart_clean(self):
        return self._restart(False)

    def live_hash(self):
        """Hash (same scheme as snapshots) of what the live connection shows right now."""
        live = self.dump()
        h = 0
        for b, v in live.items():
            h += meta_item(b, {k: v["meta"][k] for k in ("id", "type", "client", "hostname", "created_us", "name", "data")})
            for t in v["events"]:
                h += ev_item(b, t[1:])
        return h & MASK

    def attribute(self, hL, done):
        """After an epoch's crash points were evaluated: decide what a failure means.

        * live store == model: the write log is right, so a failing crash point is a C06 violation;
        * live store == model minus a block of acknowledged-but-buffered writes (j_k, n_k] observed at
          some op return k: an operation discarded buffered writes while the process was alive -- the
          database no longer holds a prefix of the writes performed: C06 violation, attributed there;
        * anything else: the model mispredicted what an op wrote (functional defect, C02/C04/C05's
          subject): the run is abandoned for C06."""
        m = self.model
        follows = hL == m.hashes[ORDERS[0]][m.n]
        if not follows:
            for pt in done:
                if pt["kind"] not in ("return",) or not pt.get("found"):
                    continue
                o, j, _ = pt["found"]
                nk = pt["n"]
                # the discarded block must contain writes of operations that had already returned before this
                # one was issued (an op whose own write merely did not happen is a functional matter)
                if j >= nk or j >= pt.get("n_before", nk):
                    continue
                hs = m.hashes[o]
                if (hs[m.n] - hs[nk] + hs[j]) & MASK == hL:
                    if not self.strict:
                        raise Abandon("%s (step %d) discarded acknowledged buffered writes while the process was alive (C06's subject)" % (pt["op"], pt["step"]), "C06")
                    raise Violation(
                        "prefix",
                        "%s (step %d) discarded %d acknowledged, still buffered writes while the process was alive: the live store now shows everything issued except writes %d..%d, so no later crash can leave a prefix"
                        % (pt["op"], pt["step"], nk - j, j + 1, nk),
                        {"op": pt["op"], "step_index": pt["step"], "kind": "discarded_buffer"},
                    )
            raise Abandon("the live store's contents differ from the reference write log (functional defect, not a crash matter)", "C02")
        if self.strict:
            for pt in done:
                if pt.get("fail"):
                    tag, text = pt["fail"]
                    raise Violation(tag, text, {"op": pt["op"], "step_index": pt["step"], "crash_kind": pt["kind"], "stmt": pt["stmt"]})

    def finish(self):
        self.crash_point("end")
        hL = self.live_hash()
        self.close(clean=False)
        done = self.evaluate_pending(strict=False)
        self.attribute(hL, done)

    # ------------------------------------------------------------------ target resolution (model mode)
    def known(self, b):
        evs = self.model.events.get(b, {})
        return [u for u in sorted(evs) if u in self.model.ids]

    def resolve_uid(self, b, k):
        ks = self.known(b)
        if not ks:
            return None
        return ks[k % len(ks)]

    # ------------------------------------------------------------------ op execution
    def exec_op(self, step):
        op = step["op"]
        self.cur_op = op
        self.stmt_in_op = 0
        self.dml_in_op = 0
        self._files_dirty = True
        fn = getattr(self, "mop_" + op, None)
        if fn is None:
            raise HarnessError("unknown op %r in crash mode" % op)
        return fn(step)

    def _run(self, variants, bucket_level, call, *a, expect_reject=False, **k):
        """Issue writes to the model, run the real call with crash points armed, mark returned."""
        m = self.model
        n_before = m.n
        # commit-fault injection: only for single-event operations on stores that commit from Python
        armed = self.fault_next and not bucket_level and not expect_reject and len(variants[ORDERS[0]]) == 1 and self.backend != "peewee"
        self.fault_next = False
        if armed:
            for o in ORDERS:
                for w in variants[o]:
                    w.is_event = False  # a write whose call fails is not an acknowledged write
            seams.COMMIT_FAULTS.arm(self.path, 1)
            fired0 = seams.COMMIT_FAULTS.fired
        m.issue(variants, bucket_level)
        self.inflight = True
        t_issue = seams.CLOCK.peek()
        try:
            out = self._call(call, *a, **k)
        finally:
            self.inflight = False
            if armed:
                seams.COMMIT_FAULTS.pending = 0
        if armed and seams.COMMIT_FAULTS.fired > fired0 and out["exc"] is not None and "database is locked" in str(out["exc"]):
            # the flush attempt failed and the call raised: its write stays in the open transaction, nothing
            # was acknowledged, the store must carry on (and must not believe it has just flushed)
            if self.dml_in_op == 0:
                # the store tried to flush *before* writing (e.g. a rewrite implemented as read-then-update) and the
                # failed flush made the call fail with nothing written: legitimate, but the write log cannot say
                # so without reading -- the run is abandoned rather than modelled wrongly
                raise Abandon("a call failed at an injected flush failure before it had written anything", None)
            self.probes["fault_commit_failed"] += 1
            self.restarted = True  # from here on a rejected valid operation is a failure to make progress after a fault
            m.returned(False, False)
            pt = self.crash_point("return")
            pt["t_issue"] = t_issue
            pt["n_before"] = n_before
            pt["bucket_level"] = False
            pt["event_write"] = False
            return {"ret": None, "exc": None, "fault": True, "point": pt}
        if expect_reject:
            if out["exc"] is None:
                raise Abandon("an operation on a missing bucket was accepted (%s): its writes cannot be modelled" % self.cur_op, "C05")
            self.probes["rejected_op_with_buffered_writes" if m.n > m.d else "rejected_op"] += 1
            out["rejected"] = out["exc"]
            out["exc"] = None
        if out["exc"] is not None:
            if self.restarted:
                raise Violation("progress_after_restart", "after an injected fault (crash and restart, or a failed flush) the store rejected a valid %s: %r" % (self.cur_op, out["exc"]), {"op": self.cur_op})
            raise Abandon("valid %s raised %r" % (self.cur_op, out["exc"]), "C02")
        # a rejected call completes nothing: it raised without committing, so whatever an earlier failed flush left in
        # the open transaction is still not durable-by-contract
        m.returned(bucket_level, self.autocommit and not expect_reject)
        if self.diagnose and self.live_hash() != m.hashes[ORDERS[0]][m.n]:
            # diagnostic replay (reads after every op): what the live connection shows is not what the
            # reference write log says this operation did -- a functional defect, not a crash matter
            raise Abandon("after %s the live store differs from the reference write log (functional defect)" % self.cur_op, "C02")
        pt = self.crash_point("return")
        pt["t_issue"] = t_issue
        pt["n_before"] = n_before
        pt["bucket_level"] = bucket_level
        pt["event_write"] = any(w.is_event for w in variants[ORDERS[0]])
        pt["write_call"] = self.cur_op in ("insert1", "insertN", "replace", "replace_last_blind", "delete") and not expect_reject
        out["point"] = pt
        return out

    @staticmethod
    def _same(ws):
        return {o: ws for o in ORDERS}

    def mop_create(self, s):
        b = s["b"]
        if b in self.model.meta:
            return {"skipped": "exists"}
        m = s["meta"]
        kw = {}
        if "name" in m:
            kw["name"] = m["name"]
        if "data" in m:
            kw["data"] = m["data"]
        w = [W("meta", b, None, None, expected_meta(b, m), s.get("seq"), False)]
        out = self._run(self._same(w), True, self.ds.create_bucket, b, type=m["type"], client=m["client"], hostname=m["hostname"], created=us_to_dt(m["created_us"], m.get("off", 0)), **kw)
        self.handles[b] = out["ret"]
        self.stale.pop(b, None)
        return out

    def mop_update(self, s):
        b = s["b"]
        if b not in self.model.meta:
            f = dict(s["fields"])
            if "type" in f:
                f["type_id"] = f.pop("type")
            return self._run(self._same([]), False, self.ds.update_bucket, b, expect_reject=True, **f)
        old = self.model.meta[b]
        new = dict(old)
        f = dict(s["fields"])
        for k, v in f.items():
            new[k] = canon(v) if k == "data" else v
        if "type" in f:
            f["type_id"] = f.pop("type")
        w = [W("meta", b, None, old, new, None, False)]
        return self._run(self._same(w), True, self.ds.update_bucket, b, **f)

    def mop_insert_stale(self, s):
        """Insert through a handle of a bucket deleted since: expected to be rejected, no writes."""
        b = s["b"]
        h = self.stale.get(b)
        if h is None or b in self.model.meta:
            return {"skipped": "no stale handle"}
        arg = [mk_event(it["ev"]) for it in s["evs"]] if "evs" in s else mk_event(s["ev"])
        return self._run(self._same([]), False, h.insert, arg, expect_reject=True)

    def mop_delete_bucket(self, s):
        b = s["b"]
        if b not in self.model.meta:
            return self._run(self._same([]), False, self.ds.delete_bucket, b, expect_reject=True)
        ws = [W("ev", b, u, c, None, None, False) for u, c in sorted(self.model.events[b].items())]
        ws.append(W("meta", b, None, self.model.meta[b], None, None, False))
        if len(ws) > 1:
            self.probes["delete_bucket_with_events"] += 1
        out = self._run(self._same(ws), True, self.ds.delete_bucket, b)
        if b in self.handles:
            self.stale[b] = self.handles.pop(b)
        return out

    def mop_insert1(self, s):
        b = s["b"]
        if b not in self.model.meta:
            return {"skipped": "no bucket"}
        E = s["ev"]
        u = E["data"]["u"]
        w = [W("ev", b, None, None, expect_tuple(E), None, True, new_uid=u)]
        out = self._run(self._same(w), False, self.ds[b].insert, mk_event(E))
        ret = out["ret"]
        if ret is not None and ret.id is not None:
            self.model.ids[u] = ret.id
        return out

    def mop_insertN(self, s):
        b = s["b"]
        if b not in self.model.meta:
            return {"skipped": "no bucket"}
        evs, upd, ins, lst = [], [], [], []
        used = set()
        for item in s["evs"]:
            E = dict(item["ev"])
            tid = None
            if "upsert" in item:
                tu = self.resolve_uid(b, item["upsert"])
                if tu is not None and tu not in used:
                    used.add(tu)
                    tid = self.model.ids[tu]
                    # rewrite keeps the identity (uid) of the row; content (incl. its tag) is new
                    w = W("ev", b, tu, self.model.events[b][tu], expect_tuple(E), None, True, new_uid=E["data"]["u"])
                    self.model.ids[E["data"]["u"]] = tid
                    upd.append(w)
                    lst.append(w)
            if tid is None:
                w = W("ev", b, None, None, expect_tuple(E), None, True, new_uid=E["data"]["u"])
                ins.append(w)
                lst.append(w)
            E["id"] = tid
            evs.append(mk_event(E))
        if upd and ins:
            self.probes["bulk_mixed_upsert_insert"] += 1
        if len(evs) > 50:
            self.probes["bulk_over_50"] += 1
        if len(evs) > 100:
            self.probes["bulk_over_100"] += 1
        variants = {"upd_first": upd + ins, "ins_first": ins + upd, "list": lst}
        return self._run(variants, False, self.ds[b].insert, evs)

    def mop_replace(self, s):
        b = s["b"]
        if b not in self.model.meta:
            return {"skipped": "no bucket"}
        tu = self.resolve_uid(b, s["k"])
        if tu is None:
            return {"skipped": "no event with a known id"}
        E = s["ev"]
        w = [W("ev", b, tu, self.model.events[b][tu], expect_tuple(E), None, True, new_uid=E["data"]["u"])]
        self.model.ids[E["data"]["u"]] = self.model.ids[tu]
        return self._run(self._same(w), False, self.ds[b].replace, self.model.ids[tu], mk_event(E))

    def mop_replace_last_blind(self, s):
        """replace_last with no preceding read; only when the newest event is unambiguous under
        every reading (strictly largest timestamp and strictly largest end instant)."""
        b = s["b"]
        if b not in self.model.meta:
            return {"skipped": "no bucket"}
        evs = self.model.events[b]
        if not evs:
            return {"skipped": "empty"}
        by_ts = sorted(evs.items(), key=lambda kv: kv[1][0])
        by_end = sorted(evs.items(), key=lambda kv: kv[1][0] + kv[1][1])
        tu = by_ts[-1][0]
        if by_end[-1][0] != tu:
            return {"skipped": "newest ambiguous"}
        if len(evs) > 1 and (by_ts[-2][1][0] == by_ts[-1][1][0] or by_end[-2][1][0] + by_end[-2][1][1] == by_end[-1][1][0] + by_end[-1][1][1]):
            return {"skipped": "newest ambiguous"}
        E = s["ev"]
        nu = E["data"]["u"]
        if nu != tu and any(nu in x for x in self.model.events.values()):
            return {"skipped": "tag already used by another live event"}
        if nu == tu:
            self.probes["replace_last_same_event_again"] += 1
        w = [W("ev", b, tu, evs[tu], expect_tuple(E), None, True, new_uid=nu)]
        if tu in self.model.ids:
            self.model.ids[nu] = self.model.ids[tu]
        elif nu != tu:
            self.model.ids.pop(nu, None)  # a tag used before (repeated heartbeat): its old id is history
        self.probes["replace_last_blind"] += 1
        return self._run(self._same(w), False, self.ds[b].replace_last, mk_event(E))

    def mop_delete(self, s):
        b = s["b"]
        if b not in self.model.meta:
            return {"skipped": "no bucket"}
        if s.get("never"):
            tid = 10**9 + 7
            ws = []
        else:
            tu = self.resolve_uid(b, s["k"])
            if tu is None:
                return {"skipped": "no event with a known id"}
            tid = self.model.ids[tu]
            ws = [W("ev", b, tu, self.model.events[b][tu], None, None, True)]
            self.probes["delete_live"] += 1
        return self._run(self._same(ws), False, self.ds[b].delete, tid)

    def mop_read(self, s):
        """An ordinary read issued by a client: reveals ids (and, on sqlite today, flushes)."""
        b = s["b"]
        if b not in self.model.meta:
            return {"skipped": "no bucket"}
        out = self._run(self._same([]), False, self.ds[b].get, limit=s.get("limit", -1))
        for e in out["ret"] or []:
            t = obs_event(e)
            u = _uid_of(t)
            if u is not None and u in self.model.events.get(b, {}):
                self.model.ids[u] = t[0]
        self.probes["client_read"] += 1
        return out

    def mop_tick(self, s):
        seams.CLOCK.advance(s["us"])
        if s["us"] < 0:
            self.probes["fault_clock_backward"] += 1
        elif s["us"] >= 10_000_000:
            self.probes["clock_idle_over_10s"] += 1
        return {"ret": None, "exc": None}

    def mop_fault_commit(self, s):
        self.fault_next = True
        return {"ret": None, "exc": None}

    def mop_slow(self, s):
        self.slow = (s["stmt"], s["us"])
        return {"ret": None, "exc": None}

    def mop_restart_dirty(self, s):
        if not self.restart_dirty():
            return {"skipped": "volatile"}
        self.probes["fault_restart_dirty"] += 1
        return {"ret": None, "exc": None}

    def mop_restart_clean(self, s):
        if not self.restart_clean():
            return {"skipped": "volatile"}
        self.probes["restart_clean"] += 1
        return {"ret": None, "exc": None}


def _uid_of(t):
    """uid tag of an observed event tuple (id, ts, dur, canon data)."""
    d = t[3]
    if d and d[0] == "d":
        for k, v in d[1]:
            if k == "u" and v and v[0] == "i":
                return v[1]
    return None


