"""The simulated parties.  Each yields steps (JSON dicts) from its own PRNG stream; the seeded
scheduler interleaves them.  Generation never looks at the system under test."""
from . import gen


class UID:
    def __init__(self):
        self.n = 0

    def next(self):
        self.n += 1
        return self.n


def bulk_len(r, bulk_max):
    c = r.random()
    if c < 0.5:
        return r.randrange(1, 5)
    if c < 0.8:
        return r.randrange(1, min(bulk_max, 20) + 1)
    return r.randrange(1, bulk_max + 1)


class Party:
    """Base: an actor bound to a PRNG stream and a run configuration."""

    name = "party"

    def __init__(self, r, cfg):
        self.r = r
        self.cfg = cfg

    def ev(self):
        c = self.cfg
        uid = c["uid"].next() if c.get("uid") is not None else None
        return gen.event(self.r, c["lat"], wild=c.get("wild", False) and self.r.random() < c.get("wild_p", 1.0), alphabet=c.get("alphabet", 3), uid=uid)

    def step(self):
        raise NotImplementedError


class Importer(Party):
    name = "importer"

    def __init__(self, r, cfg, b):
        super().__init__(r, cfg)
        self.b = b

    def step(self):
        r, c = self.r, self.cfg
        x = r.random()
        if x < 0.5:
            s = {"op": "insert1", "b": self.b, "ev": self.ev()}
            if r.random() < c.get("reuse_p", 0.0):
                s["reuse_obj"] = True
            return s
        n = bulk_len(r, c.get("bulk_max", 8))
        evs = []
        for _ in range(n):
            y = r.random()
            if evs and r.random() < c.get("dup_p", 0.0):
                evs.append({"dup_first": True, "ev": self.ev()})  # "ev" is used when the first item cannot be repeated
                continue
            if y < c.get("upsert_p", 0.0):
                it = {"upsert": r.randrange(0, 1000), "ev": self.ev()}
                if r.random() < c.get("again_p", 0.0):
                    it["again"] = True
                evs.append(it)
            elif y < c.get("upsert_p", 0.0) + c.get("foreign_p", 0.0):
                evs.append({"foreign": r.randrange(0, 1000), "ev": self.ev()})
            else:
                evs.append({"ev": self.ev()})
        return {"op": "insertN", "b": self.b, "evs": evs}


class Editor(Party):
    name = "editor"

    def __init__(self, r, cfg, b):
        super().__init__(r, cfg)
        self.b = b

    def step(self):
        r, c = self.r, self.cfg
        x = r.random()
        fp = c.get("foreign_p", 0.0)
        if x < 0.3:
            s = {"op": "replace", "b": self.b, "ev": self.ev()}
            if r.random() < c.get("reuse_p", 0.0):
                s["reuse_obj"] = True
            if r.random() < c.get("foreign_replace_p", fp):
                s["foreign"] = r.randrange(0, 1000)
            else:
                s["k"] = r.randrange(0, 1000)
                if r.random() < c.get("own_id_p", 0.12):
                    s["own_id"] = r.randrange(0, 1000)  # the payload is an event that was handed out: it carries its own id
            return s
        if x < 0.6:
            s = {"op": "replace_last", "b": self.b, "ev": self.ev()}
            if r.random() < c.get("reuse_p", 0.0):
                s["reuse_obj"] = True
            elif r.random() < c.get("own_id_p", 0.12):
                s["own_id"] = r.randrange(0, 1000)
            return s
        s = {"op": "delete", "b": self.b}
        y = r.random()
        fd = c.get("foreign_delete_p", fp)
        if y < fd:
            s["foreign"] = r.randrange(0, 1000)
        elif y < fd + c.get("never_p", 0.15):
            s["never"] = True
        else:
            s["k"] = r.randrange(0, 1000)
        return s


class Reader(Party):
    name = "reader"

    def __init__(self, r, cfg, b):
        super().__init__(r, cfg)
        self.b = b

    def step(self):
        r = self.r
        x = r.random()
        if x < 0.4:
            return {"op": "read", "b": self.b, "limit": r.choice([-1, -1, 1, 2, 5, 0, -3])}
        if x < 0.6:
            return {"op": "count", "b": self.b}
        s = {"op": "byid", "b": self.b}
        if r.random() < 0.3:
            s["never"] = True
        else:
            s["k"] = r.randrange(0, 1000)
        return s


class Admin(Party):
    name = "admin"

    def __init__(self, r, cfg, buckets):
        super().__init__(r, cfg)
        self.buckets = buckets

    def step(self):
        r = self.r
        b = r.choice(self.buckets)
        x = r.random()
        if x < 0.3:
            return {"op": "create", "b": b, "meta": named(gen.meta(r, wild=self.cfg.get("wild_meta", True)), self.cfg)}
        if x < 0.65:
            return {"op": "update", "b": b, "fields": update_fields(r)}
        return {"op": "delete_bucket", "b": b}


def update_fields(r):
    pool = {
        "type": lambda: r.choice(["newtype", "тип2", "t"]),
        "client": lambda: r.choice(["newclient", "c2"]),
        "hostname": lambda: r.choice(["newhost", "хост"]),
        "name": lambda: r.choice(["new name", "näme2"]),
        "data": lambda: {r.choice(gen._KEYS): gen.json_value(r, 1) for _ in range(r.randrange(1, 3))},
    }
    keys = sorted(pool)
    k = r.randrange(1, len(keys) + 1)
    chosen = r.sample(keys, k)
    return {key: pool[key]() for key in sorted(chosen)}


class Watcher(Party):
    """Feeds a pre-generated heartbeat stream obeying C07's quantifier into its own bucket."""

    name = "watcher"

    def __init__(self, r, cfg, b, pulse, unit=None):
        super().__init__(r, cfg)
        self.b = b
        self.pulse = pulse
        self.unit = unit
        lat = cfg["lat"]
        self.t = gen.lat_ts(r, lat)
        self.end = self.t
        self.first = True

    def step(self):
        r, lat = self.r, self.cfg["lat"]
        unit = self.unit or lat["step"]
        pulse_us = int(round(self.pulse * 1_000_000))
        if self.first:
            self.first = False
            ts = self.t
        else:
            # strictly increasing timestamps; gaps below / at / above the pulsetime measured from the previous end
            c = r.random()
            if c < 0.35:
                ts = self.t + unit * r.randrange(1, 3)
            elif c < 0.55:
                ts = self.end + pulse_us  # exactly at the edge
            elif c < 0.7:
                ts = self.end + pulse_us + r.choice([1000, unit])  # just above
            elif c < 0.85:
                ts = self.end + max(0, pulse_us - r.choice([1000, unit]))  # just below
            else:
                ts = self.end  # starts exactly where the previous one ended
            ts = ts // 1000 * 1000
            if ts <= self.t:
                ts = self.t + 1000
        # non-decreasing end instants
        c = r.random()
        if c < 0.45:
            dur = 0
        else:
            dur = unit * r.randrange(0, 4) // 1000 * 1000
        if ts + dur < self.end:
            dur = self.end - ts if r.random() < 0.6 else self.end - ts + unit
        self.t = ts
        self.end = max(self.end, ts + dur)
        E = {"ts": ts, "off": 0, "dur": dur, "data": gen.small_data(r, self.cfg.get("alphabet", 2))}
        s = {"op": "heartbeat", "b": self.b, "ev": E, "pulse": self.pulse}
        if getattr(self, "mirror", None):
            # two buckets fed from one stream: the client hands the very same heartbeat object to both loops
            self.n = getattr(self, "n", 0) + 1
            tag = "%s:%d" % (self.b, self.n)
            return [dict(s, hb_tag=tag), dict(s, b=self.mirror, hb_reuse=tag)]
        return s


class Operator(Party):
    name = "operator"

    def step(self):
        r, c = self.r, self.cfg
        x = r.random()
        if x < c.get("dirty_p", 0.0):
            return {"op": "restart_dirty"}
        if x < c.get("dirty_p", 0.0) + 0.6:
            return {"op": "restart_clean"}
        return {"op": "new_datastore"}


def schedule(r, parties, weights, nsteps):
    """Seeded scheduler: picks which party performs the next call."""
    steps = []
    names = [p for p in parties]
    w = [weights.get(p.name, 1.0) for p in parties]
    for _ in range(nsteps):
        p = r.choices(names, weights=w, k=1)[0]
        s = p.step()
        if isinstance(s, list):
            steps.extend(dict(x, actor=p.name) for x in s)
        elif s is not None:
            steps.append(dict(s, actor=p.name))
    return steps


def named(m, cfg):
    """Crash-mode workloads always give a name: the default for an omitted name is backend-specific and the
    properties compare the name only when it was given."""
    if cfg.get("always_name") and "name" not in m:
        m["name"] = "bucket name"
    return m


def creates(r, buckets, cfg):
    return [{"op": "create", "b": b, "meta": named(gen.meta(r, wild=cfg.get("wild_meta", False)), cfg), "actor": "admin"} for b in buckets]
