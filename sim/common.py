"""Shared value helpers: canonical events, JSON equality, exceptions."""
import copy
import hashlib
import json
from datetime import datetime, timedelta, timezone

EPOCH = datetime(1970, 1, 1, tzinfo=timezone.utc)
US = timedelta(microseconds=1)


class Violation(Exception):
    """An oracle of the property under check failed."""

    def __init__(self, tag, message, detail=None):
        super().__init__("%s: %s" % (tag, message))
        self.tag = tag
        self.message = message
        self.detail = detail or {}


class Abandon(Exception):
    """The run left the property's quantifier or hit another property's defect."""

    def __init__(self, reason, other_property=None):
        super().__init__(reason)
        self.reason = reason
        self.other_property = other_property


class HarnessError(Exception):
    pass


def dt_to_us(dt):
    """Exact integer microseconds since the epoch of an aware datetime."""
    if dt.tzinfo is None:
        dt = dt.replace(tzinfo=timezone.utc)
    return (dt - EPOCH) // US


def us_to_dt(us, off_min=0):
    tz = timezone.utc if not off_min else timezone(timedelta(minutes=off_min))
    return (EPOCH + timedelta(microseconds=us)).astimezone(tz)


def td_to_us(td):
    return td // US


def canon(v):
    """Canonical, hashable, order-independent form of a JSON value.
    Integral floats and ints compare equal (JSON numbers), bools stay bools."""
    if isinstance(v, dict):
        return ("d", tuple(sorted((str(k), canon(x)) for k, x in v.items())))
    if isinstance(v, (list, tuple)):
        return ("l", tuple(canon(x) for x in v))
    if isinstance(v, bool):
        return ("b", v)
    if v is None:
        return ("n",)
    if isinstance(v, int):
        return ("i", v)
    if isinstance(v, float):
        if v == int(v) and abs(v) < 2**62:
            return ("i", int(v))
        return ("f", repr(v))
    if isinstance(v, str):
        return ("s", v)
    return ("?", repr(v))


def canon_str(v):
    return repr(canon(v))


def mk_event(E):
    """Build a real aw_core Event from the JSON step form {ts, off, dur, data[, id]}."""
    from aw_core.models import Event

    return Event(
        id=E.get("id"),
        timestamp=us_to_dt(E["ts"], E.get("off", 0)),
        duration=timedelta(microseconds=E["dur"]),
        data=copy.deepcopy(E.get("data", {})),
    )


def expect_tuple(E):
    """What the store must hold for E: (ts floored to ms, duration us, canonical data)."""
    return (E["ts"] // 1000 * 1000, E["dur"], canon(E.get("data", {})))


def obs_event(e):
    """Observed event -> (id, ts_us, dur_us, canonical data)."""
    return (e.id, dt_to_us(e.timestamp), td_to_us(e.duration), canon(e.data))


def sort_key_id(t):
    i = t[0]
    return (0, i) if isinstance(i, int) else (1, str(i))


def digest(obj):
    return hashlib.sha256(
        json.dumps(obj, sort_keys=True, default=repr, separators=(",", ":")).encode()
    ).hexdigest()[:16]


def short(obj, n=300):
    s = repr(obj)
    return s if len(s) <= n else s[: n - 3] + "..."
