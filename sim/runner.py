"""Seeded search driver: run generation, worker pool, determinism re-checks, minimisation,
replay files, known-findings matching, evidence."""
import collections
import concurrent.futures as cf
import faulthandler
import json
import multiprocessing
import os
import shutil
import subprocess
import sys
import time
import traceback

from . import seams
from .common import Abandon, HarnessError, Violation, digest, short
from .rng import derive

VERIF = os.path.dirname(os.path.dirname(os.path.abspath(__file__)))
DEFAULT_SEED = 20260926
KNOWN_FINDINGS = os.path.join(VERIF, "known_findings.json")


def out_dir():
    """Where evidence and replay files go.  /verif for runs against /repo itself; a scratch directory for
    sensitivity runs against a patched copy (VERIF_REPO), so those never overwrite committed evidence."""
    if os.environ.get("VERIF_OUT"):
        return os.environ["VERIF_OUT"]
    if os.path.realpath(seams.REPO) == "/repo":
        return VERIF
    d = os.path.join("/tmp", "verif-out-" + os.path.basename(os.path.realpath(seams.REPO)))
    os.makedirs(d, exist_ok=True)
    return d


# ----------------------------------------------------------------------------- base check
VERIF_DIR = os.path.dirname(os.path.dirname(os.path.abspath(__file__))) + os.sep


class Check:
    """One property.  Subclasses provide gen() and the oracle hooks."""

    prop = "C00"
    level = "exploration"
    technique = "deterministic simulation"
    quick_runs = 2000
    thorough_runs = 40000
    chunk = 40
    rule = ""
    assumptions = []
    real_components = [
        "aw_datastore.Datastore/Bucket",
        "MemoryStorage/SqliteStorage/PeeweeStorage",
        "SQLite engine incl. WAL recovery",
        "peewee ORM",
    ]
    stub_components = ["wall clock (SimClock)", "process death (file snapshot)", "data directory (XDG_*)", "loggers", "client parties (generated actors)"]

    # -- to override
    def gen(self, seed, idx, tier):
        raise NotImplementedError

    def make_world(self, run, rundir):
        from .world import World

        return World(run["backend"], rundir)

    def start(self, world, run):
        world.open()
        world.refresh_view()
        if world.view:
            self.fresh_store_not_empty(world)

    def fresh_store_not_empty(self, world):
        """A store created on a fresh file (or a fresh MemoryStorage) already lists buckets: state leaked from
        another store object.  C05 reports it; for every other property the run is outside its quantifier."""
        raise Abandon("a freshly created store already lists buckets %s" % sorted(world.view), "C05")

    def before(self, world, step, i):
        pass

    def after(self, world, step, out, i):
        pass

    def finish(self, world, run):
        pass

    def nontrivial(self, world, run, res):
        return res["steps_executed"] >= 2

    def signature(self, world, run, res):
        """Identity of a run for the distinct count: backend + executed op-kind sequence."""
        return digest([run["backend"], res["opseq"]])

    # -- execution of one run
    def execute(self, run, rundir):
        seams.CLOCK.reset(run.get("clock0", 1_700_000_000_000_000))
        seams.STMT.reset()
        res = {
            "status": "ok",
            "tag": None,
            "message": None,
            "step_index": None,
            "step_op": None,
            "detail": None,
            "steps_executed": 0,
            "skipped": 0,
            "opseq": [],
        }
        log = []
        world = None
        t0_us = seams.CLOCK.us
        try:
            world = self.make_world(run, rundir)
            i = -1
            try:
                self.start(world, run)
                for i, step in enumerate(run["steps"]):
                    self.before(world, step, i)
                    out = world.exec_op(step)
                    if "skipped" in out:
                        res["skipped"] += 1
                        log.append([i, step["op"], "skip", out["skipped"]])
                        self.after_skip(world, step, out, i)
                        continue
                    res["steps_executed"] += 1
                    res["opseq"].append(step["op"])
                    self.after(world, step, out, i)
                    log.append([i, step["op"], self.log_outcome(world, step, out)])
                i = len(run["steps"])
                self.finish(world, run)
            except Violation as v:
                if isinstance(v.detail, dict) and v.detail.get("step_index") is not None:
                    i = v.detail["step_index"]
                st = run["steps"][i] if 0 <= i < len(run["steps"]) else {"op": "start" if i < 0 else "finish"}
                res.update(
                    status="violation",
                    tag=v.tag,
                    message=v.message,
                    detail=v.detail,
                    step_index=i,
                    step_op=v.detail.get("op", st["op"]) if isinstance(v.detail, dict) else st["op"],
                )
                log.append([i, "VIOLATION", v.tag])
            except Abandon as a:
                res.update(status="abandoned", message=a.reason, tag=a.other_property, step_index=i)
                log.append([i, "ABANDON", a.reason])
            except HarnessError:
                raise
            except Exception as e:
                # An exception that the code under test raised while the harness was merely *observing* (listing
                # buckets, dumping events) is some other property's defect, not a fault of the harness: the run
                # is abandoned (counted in the evidence; a batch that is mostly abandoned is vacuous -> exit 2).
                frames = traceback.extract_tb(e.__traceback__)
                last_h = max((k for k, f in enumerate(frames) if f.filename.startswith(VERIF_DIR)), default=-1)
                if not any(f.filename.startswith(seams.REPO + os.sep) for f in frames[last_h + 1 :]):
                    raise
                reason = "the store raised %s during a harness observation" % type(e).__name__
                res.update(status="abandoned", message=reason, tag=None, step_index=i)
                log.append([i, "ABANDON", reason])
            if i < 0:
                # failed or abandoned before the first step: per-run oracle state may not exist yet
                res["nontrivial"] = False
                res["signature"] = digest([run.get("backend"), "start", res["status"]])
            else:
                res["nontrivial"] = bool(self.nontrivial(world, run, res)) if world else False
                res["signature"] = self.signature(world, run, res)
            res["probes"] = dict(world.probes) if world else {}
            res["sim_us"] = seams.CLOCK.us - t0_us
            res["clock_reads"] = seams.CLOCK.reads
            res["stmts"] = seams.STMT.count
            if i >= 0:
                self.extra_result(world, run, res)
                log.append(["extra", self.extra_log(world, run, res)])
        finally:
            if world is not None:
                try:
                    world.close(clean=False)
                except Exception:
                    pass
            seams.STMT.reset()
            shutil.rmtree(rundir, ignore_errors=True)
        res["digest"] = digest(log)
        del res["opseq"]
        return res

    def after_skip(self, world, step, out, i):
        pass

    def extra_result(self, world, run, res):
        pass

    def extra_log(self, world, run, res):
        return None

    def log_outcome(self, world, step, out):
        e = out.get("exc")
        return [type(e).__name__ if e is not None else None, digest(world.view) if world.view is not None else None]

    # -- evidence extras
    def extra_evidence(self, agg):
        return {}

    # -- minimiser hints
    def simplify_step(self, step):
        """Yield simpler variants of a step."""
        return simplify_step_default(step)

    def post_batch(self, tier, seed):
        """-> (harness errors, extra evidence keys)"""
        return [], {}

    def confirm(self, run, result):
        """Last word before a violation is reported (e.g. C18 real-clock confirmation)."""
        return True, None


# ----------------------------------------------------------------------------- minimiser
def _simpler_event(E):
    out = []
    if E.get("data"):
        keep = {k: v for k, v in E["data"].items() if k == "u"}
        if keep != E["data"]:
            out.append(dict(E, data=keep))
    if E.get("off"):
        out.append(dict(E, off=0))
    if E.get("dur") not in (0, 1_000_000):
        out.append(dict(E, dur=0))
        out.append(dict(E, dur=1_000_000))
    if E.get("ts") is not None and E["ts"] % 1_000_000:
        out.append(dict(E, ts=E["ts"] // 1_000_000 * 1_000_000))
    return out


def simplify_step_default(step):
    s = step
    if "ev" in s and isinstance(s["ev"], dict):
        for e in _simpler_event(s["ev"]):
            yield dict(s, ev=e)
    if "evs" in s:
        evs = s["evs"]
        n = len(evs)
        if n > 1:
            yield dict(s, evs=evs[: n // 2])
            yield dict(s, evs=evs[n // 2 :])
            if n <= 12:
                for j in range(n):
                    yield dict(s, evs=evs[:j] + evs[j + 1 :])
        if n <= 6:
            for j, it in enumerate(evs):
                E = it["ev"] if "ev" in it else it
                for e in _simpler_event(E):
                    ni = dict(it, ev=e) if "ev" in it else e
                    yield dict(s, evs=evs[:j] + [ni] + evs[j + 1 :])
    if s.get("op") == "tick" and s.get("us") not in (0, 11_500_000):
        yield dict(s, us=11_500_000)
    if s.get("op") == "create" and "meta" in s:
        m = s["meta"]
        if "data" in m or "name" in m:
            yield dict(s, meta={k: v for k, v in m.items() if k not in ("data", "name")})
    if s.get("soff"):
        yield dict(s, soff=0)
    if s.get("eoff"):
        yield dict(s, eoff=0)
    if "limit" in s and s["limit"] != -1:
        yield dict(s, limit=-1)


def same_failure(a, b):
    return (
        b["status"] == "violation"
        and a["tag"] == b["tag"]
        and a.get("step_op") == b.get("step_op")
    )


def minimise(check, run, result, rundir_base, budget=400, wall=60.0):
    """ddmin over the step list, then argument shrinking.  Returns (run, result, tries)."""
    tries = [0]
    t_end = time.time() + wall

    def test(steps, extra=None):
        if tries[0] >= budget or time.time() > t_end:
            return None
        tries[0] += 1
        r = dict(run, steps=steps)
        if extra:
            r.update(extra)
        rd = os.path.join(rundir_base, "min-%d" % tries[0])
        try:
            res = check.execute(r, rd)
        except Exception:
            return None
        return res if same_failure(result, res) else None

    if hasattr(check, "minimise_prepare"):
        run = check.minimise_prepare(run)
    steps = list(run["steps"])
    best = result
    # cut everything after the failing step
    if result.get("step_index") is not None and result["step_index"] + 1 < len(steps):
        cand = steps[: result["step_index"] + 1]
        r = test(cand)
        if r:
            steps, best = cand, r
    n = 2
    while len(steps) >= 2:
        chunk = max(1, len(steps) // n)
        reduced = False
        for start in range(0, len(steps), chunk):
            cand = steps[:start] + steps[start + chunk :]
            if not cand:
                continue
            r = test(cand)
            if r:
                steps, best = cand, r
                n = max(n - 1, 2)
                reduced = True
                break
        if not reduced:
            if chunk == 1:
                break
            n = min(n * 2, len(steps))
        if tries[0] >= budget or time.time() > t_end:
            break
    # argument shrinking
    changed = True
    while changed and tries[0] < budget and time.time() < t_end:
        changed = False
        for j in range(len(steps)):
            for cand_step in check.simplify_step(steps[j]):
                cand = steps[:j] + [cand_step] + steps[j + 1 :]
                r = test(cand)
                if r:
                    steps, best = cand, r
                    changed = True
                    break
    return dict(run, steps=steps), best, tries[0]


# ----------------------------------------------------------------------------- pool
_CHECK = None


def _worker_init(check_name):
    seams.after_fork()
    global _CHECK
    from checks import load

    _CHECK = load(check_name)


ISOLATE = os.environ.get("VERIF_ISOLATE", "0") == "1"  # fork per run in the sweep too (slower)


def _one_run(seed, tier, idx):
    run = _CHECK.gen(seed, idx, tier)
    rd = os.path.join(seams.SCRATCH_ROOT, "run-%d" % idx)
    try:
        res = _CHECK.execute(run, rd)
    except Exception:
        res = {"status": "harness_error", "message": traceback.format_exc(), "digest": None, "nontrivial": False, "signature": None, "probes": {}}
    res["idx"] = idx
    res["backend"] = run.get("backend")
    return res


def _one_run_forked(seed, tier, idx):
    """One simulated run = one forked child of the pristine worker: whatever state the code under test keeps
    inside the process (module globals, class attributes, caches) cannot leak from one run into the next, so
    every failure is a function of the run's own steps and replays in a fresh process."""
    import pickle

    rfd, wfd = os.pipe()
    pid = os.fork()
    if pid == 0:
        code = 0
        try:
            os.close(rfd)
            res = _one_run(seed, tier, idx)
            res.pop("detail_obj", None)
            data = pickle.dumps(res, protocol=pickle.HIGHEST_PROTOCOL)
            with os.fdopen(wfd, "wb") as f:
                f.write(data)
        except BaseException:
            code = 3
        finally:
            os._exit(code)
    os.close(wfd)
    chunks = []
    with os.fdopen(rfd, "rb") as f:
        while True:
            b = f.read(1 << 16)
            if not b:
                break
            chunks.append(b)
    _, status = os.waitpid(pid, 0)
    try:
        return pickle.loads(b"".join(chunks))
    except Exception:
        return {"status": "harness_error", "message": "run %d: child died (wait status %r) without a result" % (idx, status), "digest": None, "nontrivial": False, "signature": None, "probes": {}, "idx": idx, "backend": None}


def fork_start(fn, *args):
    """Run fn(*args) in a forked child of THIS process; returns (pid, read fd)."""
    import pickle

    rfd, wfd = os.pipe()
    pid = os.fork()
    if pid == 0:
        code = 0
        try:
            os.close(rfd)
            seams.after_fork()
            data = pickle.dumps(fn(*args), protocol=pickle.HIGHEST_PROTOCOL)
            with os.fdopen(wfd, "wb") as f:
                f.write(data)
        except BaseException:
            try:
                traceback.print_exc()
            except Exception:
                pass
            code = 3
        finally:
            try:
                shutil.rmtree(seams.SCRATCH_ROOT, ignore_errors=True)
            except Exception:
                pass
            os._exit(code)
    os.close(wfd)
    return pid, rfd


def fork_collect(pid, rfd):
    import pickle

    chunks = []
    with os.fdopen(rfd, "rb") as f:
        while True:
            b = f.read(1 << 16)
            if not b:
                break
            chunks.append(b)
    os.waitpid(pid, 0)
    try:
        return pickle.loads(b"".join(chunks))
    except Exception:
        return None


def _revalidate(seed, tier, idx):
    global _CHECK
    return _one_run(seed, tier, idx)


def _minimise_pristine(seed, tier, idx):
    """Minimise in a child forked from the parent, which never executed a run itself."""
    faulthandler.dump_traceback_later(300, exit=True)
    run = _CHECK.gen(seed, idx, tier)
    base = os.path.join(seams.SCRATCH_ROOT, "minrun-%d" % idx)
    res = _CHECK.execute(run, os.path.join(base, "orig"))
    if res["status"] != "violation":
        return {"idx": idx, "error": "did not reproduce in a pristine process", "res": res}
    mrun, mres, tries = minimise(_CHECK, run, res, base)
    shutil.rmtree(base, ignore_errors=True)
    return {"idx": idx, "run": mrun, "res": mres, "tries": tries, "orig_steps": len(run["steps"])}


def _run_chunk(args):
    check_name, seed, tier, idxs, timeout = args
    faulthandler.dump_traceback_later(timeout, exit=True)
    try:
        out = []
        for idx in idxs:
            if ISOLATE:
                out.append(_one_run_forked(seed, tier, idx))
            else:
                out.append(_one_run(seed, tier, idx))
        return out
    finally:
        faulthandler.cancel_dump_traceback_later()


def _minimise_job(args):
    check_name, seed, tier, idx = args
    faulthandler.dump_traceback_later(300, exit=True)
    try:
        run = _CHECK.gen(seed, idx, tier)
        base = os.path.join(seams.SCRATCH_ROOT, "minrun-%d" % idx)
        res = _CHECK.execute(run, os.path.join(base, "orig"))
        if res["status"] != "violation":
            return {"idx": idx, "error": "did not reproduce in minimiser worker", "res": res}
        mrun, mres, tries = minimise(_CHECK, run, res, base)
        shutil.rmtree(base, ignore_errors=True)
        return {"idx": idx, "run": mrun, "res": mres, "tries": tries, "orig_steps": len(run["steps"])}
    finally:
        faulthandler.cancel_dump_traceback_later()


def jobs():
    try:
        return max(1, int(os.environ.get("VERIF_JOBS", "0")) or min(16, os.cpu_count() or 1))
    except ValueError:
        return min(16, os.cpu_count() or 1)


# ----------------------------------------------------------------------------- known findings
def load_known():
    try:
        with open(KNOWN_FINDINGS) as f:
            return json.load(f)
    except FileNotFoundError:
        return {"findings": [], "fixed": []}


def match_known(known, prop, backend, tag, op, message=""):
    for k in known.get("findings", []):
        if k.get("message_contains") and k["message_contains"] not in (message or ""):
            continue
        if k.get("property") != prop:
            continue
        if k.get("tag") != tag:
            continue
        if k.get("backend") not in (None, "*", backend):
            continue
        if k.get("op") not in (None, "*", op):
            continue
        return k
    return None


# ----------------------------------------------------------------------------- replay files
def write_replay(check, run, res, seed, idx, minimised, extra=None):
    os.makedirs(os.path.join(out_dir(), "replays"), exist_ok=True)
    path = os.path.join(out_dir(), "replays", "%s-%s-%d.json" % (check.prop, run.get("backend", "x"), idx))
    doc = {
        "format": 1,
        "property": check.prop,
        "oracle": res["tag"],
        "backend": run.get("backend"),
        "config": {k: v for k, v in run.items() if k not in ("steps",)},
        "seed": seed,
        "run_index": idx,
        "minimised": minimised,
        "steps": run["steps"],
        "failure": {
            "at_step": res.get("step_index"),
            "op": res.get("step_op"),
            "message": res.get("message"),
            "detail": res.get("detail"),
        },
        "signature": [check.prop, run.get("backend"), res["tag"], res.get("step_op")],
    }
    if extra:
        doc.update(extra)
    with open(path, "w") as f:
        json.dump(doc, f, indent=1, default=repr)
    return path


def replay_file(path, quiet=False):
    """Execute a replay file literally.  Returns exit code (0 no longer fails, 1 violation, 2 trouble)."""
    from checks import load

    with open(path) as f:
        doc = json.load(f)
    check = load(doc["property"])
    seams.import_repo()
    run = dict(doc["config"])
    run["steps"] = doc["steps"]
    rd = os.path.join(seams.SCRATCH_ROOT, "replay")
    try:
        res = check.execute(run, rd)
    except Exception:
        print("HARNESS-ERROR replay raised:\n" + traceback.format_exc())
        return 2
    if res["status"] == "violation" and res["tag"] == doc["oracle"] and res.get("step_op") == doc["failure"].get("op"):
        if not quiet:
            print("replayed: %s %s at step %s (%s): %s" % (doc["property"], res["tag"], res["step_index"], res["step_op"], res["message"]))
        print("VIOLATION property=%s replay=%s" % (doc["property"], path))
        return 1
    if res["status"] == "violation":
        print("replayed with a different failure: tag=%s op=%s: %s" % (res["tag"], res.get("step_op"), res["message"]))
        print("VIOLATION property=%s replay=%s" % (doc["property"], path))
        return 1
    print("replay no longer fails (status=%s %s)" % (res["status"], res.get("message") or ""))
    return 0


def replay_in_fresh_process(path):
    env = dict(os.environ)
    env["PYTHONHASHSEED"] = "0"
    p = subprocess.run(
        [sys.executable, os.path.join(VERIF, "check.py"), "--replay", path],
        capture_output=True,
        text=True,
        env=env,
        timeout=300,
    )
    return p.returncode, p.stdout + p.stderr


# ----------------------------------------------------------------------------- main driver
def run_check(check_name, tier, seed=None, nruns=None):
    from checks import load

    t0 = time.time()
    seams.import_repo()
    check = load(check_name)
    if seed is None:
        seed = int(os.environ.get("VERIF_SEED", DEFAULT_SEED))
    if nruns is None:
        nruns = check.quick_runs if tier == "quick" else check.thorough_runs
        if os.environ.get("VERIF_RUNS"):
            nruns = int(os.environ["VERIF_RUNS"])
        elif os.environ.get("VERIF_FRAC"):
            nruns = max(50, int(nruns * float(os.environ["VERIF_FRAC"])))
    wall_cap = float(os.environ.get("VERIF_WALL", 150 if tier == "quick" else 1500))
    nj = jobs()
    print("check %s tier=%s seed=%d runs=%d jobs=%d repo=%s" % (check.prop, tier, seed, nruns, nj, seams.REPO), flush=True)

    chunk = check.chunk
    idx_chunks = [list(range(i, min(i + chunk, nruns))) for i in range(0, nruns, chunk)]
    # determinism re-check: re-execute the first chunk and every 25th chunk a second time
    recheck = [c for k, c in enumerate(idx_chunks) if k % 25 == 0][:8]
    results = {}
    second = {}
    harness_errors = []
    ctx = multiprocessing.get_context("fork")
    stopped_early = False
    try:
        with cf.ProcessPoolExecutor(max_workers=nj, mp_context=ctx, initializer=_worker_init, initargs=(check_name,)) as ex:
            futs = {}
            for c in idx_chunks:
                futs[ex.submit(_run_chunk, (check_name, seed, tier, c, 600))] = ("first", c)
            for c in recheck:
                futs[ex.submit(_run_chunk, (check_name, seed, tier, c, 600))] = ("second", c)
            pending = set(futs)
            while pending:
                done, pending = cf.wait(pending, timeout=5, return_when=cf.FIRST_COMPLETED)
                for f in done:
                    kind, c = futs[f]
                    try:
                        out = f.result()
                    except cf.CancelledError:
                        continue
                    for r in out:
                        (results if kind == "first" else second)[r["idx"]] = r
                if time.time() - t0 > wall_cap and pending:
                    stopped_early = True
                    for f in pending:
                        f.cancel()
                    pending = {f for f in pending if not f.cancelled()}
    except cf.process.BrokenProcessPool as e:
        print("HARNESS-ERROR worker died or timed out: %r" % (e,))
        return 2

    # ---- violations: re-validate in pristine processes, group, minimise (each in a child forked from this
    # process, which never executed a run: state the code under test keeps inside a process cannot carry over)
    global _CHECK
    _CHECK = check
    mins = []
    leak_dependent = []
    viol = [r for r in results.values() if r["status"] == "violation"]
    groups = collections.OrderedDict()
    for r in sorted(viol, key=lambda r: r["idx"]):
        kind = (r.get("detail") or {}).get("kind") if isinstance(r.get("detail"), dict) else None
        groups.setdefault((r["backend"], r["tag"], r.get("step_op"), kind), []).append(r)
    chosen = []
    for g, rs in list(groups.items())[:16]:
        for r in rs[:8]:
            rr = fork_collect(*fork_start(_revalidate, seed, tier, r["idx"]))
            if rr and rr.get("status") == "violation" and rr.get("tag") == r["tag"]:
                chosen.append((g, r["idx"]))
                break
            leak_dependent.append(r["idx"])
    jobs_ = [(g, idx, fork_start(_minimise_pristine, seed, tier, idx)) for g, idx in chosen[:12]]
    for g, idx, (pid, rfd) in jobs_:
        mm = fork_collect(pid, rfd)
        if mm is None:
            harness_errors.append("minimiser for run %d died" % idx)
            continue
        mm["_group"] = g
        mins.append(mm)
    unsolved = [g for g in list(groups)[:16] if g not in {c[0] for c in chosen}]
    if unsolved:
        # Not a violation of this property by any single history, and not a harness fault either: say so and go on.
        print(
            "NOTE %s: %d group(s) of failures (%s ...) show only after other runs in the same process and not when the run is executed alone in a fresh process: the code under test keeps state inside the process that leaks between store objects (runs %s); nothing is reported for them"
            % (check.prop, len(unsolved), unsolved[0], leak_dependent[:8]),
            flush=True,
        )

    for r in results.values():
        if r["status"] == "harness_error":
            harness_errors.append("run %d: %s" % (r["idx"], r["message"]))
    nondet = [i for i in second if i in results and second[i]["digest"] != results[i]["digest"]]
    if nondet and leak_dependent:
        print("NOTE %s: event-log digests differ on re-execution for runs %s (explained by the state leak above)" % (check.prop, nondet[:10]), flush=True)
    elif nondet:
        harness_errors.append("nondeterminism: runs %s gave different event-log digests on re-execution" % nondet[:10])

    # ---- report violations
    known = load_known()
    exit_code = 0
    reported = []
    confirms = 0
    done_groups = set()
    group_errors = {}
    for m in mins:
        g = m.get("_group")
        if g in done_groups:
            continue
        if "error" in m:
            # The failure did not show again in the (long-lived) minimiser worker: state kept by the code under
            # test inside the process can do that.  Fall back to the unminimised history in a fresh process.
            run0 = check.gen(seed, m["idx"], tier)
            res0 = results[m["idx"]]
            path = write_replay(check, run0, res0, seed, m["idx"], False)
            rc, outp = replay_in_fresh_process(path)
            if rc != 1:
                group_errors.setdefault(g, []).append("run %d: %s; the unminimised history does not fail in a fresh process either" % (m["idx"], m["error"]))
                continue
            m = {"idx": m["idx"], "run": run0, "res": res0, "tries": 0, "orig_steps": len(run0["steps"]), "unminimised": True, "_group": g}
        mrun, mres = m["run"], m["res"]
        if confirms >= getattr(check, "max_confirm", 99):
            print("NOTE %s run %d: further failure of oracle %s not confirmed (confirmation budget used); replay not written" % (check.prop, m["idx"], mres["tag"]), flush=True)
            continue
        confirms += 1
        ok, note = check.confirm(mrun, mres)
        if not ok:
            print("NOTE %s run %d: failure not confirmed: %s" % (check.prop, m["idx"], note), flush=True)
            reported.append({"idx": m["idx"], "unconfirmed": note})
            continue
        path = write_replay(check, mrun, mres, seed, m["idx"], not m.get("unminimised"), {"minimiser_tries": m["tries"], "original_steps": m["orig_steps"]})
        rc, outp = replay_in_fresh_process(path)
        if rc != 1:
            # fall back to the unminimised trace
            run = check.gen(seed, m["idx"], tier)
            res0 = results[m["idx"]]
            path = write_replay(check, run, res0, seed, m["idx"], False)
            rc, outp = replay_in_fresh_process(path)
            if rc != 1:
                group_errors.setdefault(g, []).append("run %d: violation does not reproduce in a fresh process:\n%s" % (m["idx"], outp[-2000:]))
                continue
        done_groups.add(g)
        k = match_known(known, check.prop, mrun.get("backend"), mres["tag"], mres.get("step_op"), mres.get("message"))
        desc = "%s backend=%s oracle=%s op=%s: %s" % (check.prop, mrun.get("backend"), mres["tag"], mres.get("step_op"), short(mres["message"], 400))
        if k:
            print("KNOWN-FINDING: property=%s %s [%s] replay=%s" % (check.prop, k.get("what", ""), desc, path), flush=True)
            reported.append({"idx": m["idx"], "known": k.get("what"), "replay": path})
        else:
            print("violation: " + desc)
            print("  minimised %d -> %d steps in %d tries" % (m["orig_steps"], len(mrun["steps"]), m["tries"]))
            print("VIOLATION property=%s replay=%s" % (check.prop, path), flush=True)
            reported.append({"idx": m["idx"], "violation": desc, "replay": path})
            exit_code = 1

    for g, errs in group_errors.items():
        if g not in done_groups:
            harness_errors.extend(errs[:2])

    # ---- per-check batch extras (e.g. stub-vs-real cross validation)
    batch_extra = {}
    try:
        errs, batch_extra = check.post_batch(tier, seed)
        harness_errors.extend(errs)
    except Exception:
        harness_errors.append("post_batch raised:\n" + traceback.format_exc())

    # ---- aggregate + evidence
    agg = aggregate(check, results, tier, seed, t0, reported, stopped_early, second, nj)
    agg["coverage"].update(batch_extra)
    agg["coverage"]["runs_failing_only_after_other_runs_in_the_process"] = len(leak_dependent)
    agg_abandoned = agg["coverage"]["runs_abandoned"]
    n = max(1, len(results))
    if agg_abandoned / n > 0.9:
        harness_errors.append("vacuous batch: %d of %d runs abandoned" % (agg_abandoned, n))
    write_evidence(check, agg)
    never = agg["coverage"].get("probes_never_hit") or []
    if never:
        print("note: probes never hit: %s" % ", ".join(never), file=sys.stderr)
    c = agg["coverage"]
    print(
        "%s: %d runs (%d ok, %d violations in %d groups, %d abandoned), %d distinct non-trivial, %.1fs, %.0f runs/h"
        % (check.prop, c["evaluations"], c["runs_ok"], c["runs_violation"], len(reported), c["runs_abandoned"], c["distinct_nontrivial"], agg["wall_s"], c["runs_per_hour"]),
        flush=True,
    )
    if harness_errors:
        for h in harness_errors[:10]:
            print("HARNESS-ERROR " + h)
        return 2 if exit_code == 0 else exit_code
    return exit_code


def aggregate(check, results, tier, seed, t0, reported, stopped_early, second, nj):
    probes = collections.Counter()
    by_backend = collections.Counter()
    status = collections.Counter()
    abandoned_other = collections.Counter()
    sigs = set()
    inter = set()
    sim_us = 0
    stmts = 0
    clock_reads = 0
    steps = 0
    extra = collections.Counter()
    for r in results.values():
        status[r["status"]] += 1
        by_backend[r.get("backend")] += 1
        for k, v in (r.get("probes") or {}).items():
            probes[k] += v
        for k, v in (r.get("extra") or {}).items():
            extra[k] += v
        if r["status"] == "abandoned":
            abandoned_other[r.get("tag") or "quantifier"] += 1
        if r.get("nontrivial") and r.get("signature"):
            sigs.add(r["signature"])
        if r.get("signature"):
            inter.add(r["signature"])
        sim_us += r.get("sim_us", 0) or 0
        stmts += r.get("stmts", 0) or 0
        clock_reads += r.get("clock_reads", 0) or 0
        steps += r.get("steps_executed", 0) or 0
    wall = time.time() - t0
    n = len(results)
    samples = []
    for idx in sorted(results)[:3]:
        run = check.gen(seed, idx, tier)
        samples.append({"run_index": idx, "backend": run.get("backend"), "steps": run["steps"][:12], "n_steps": len(run["steps"]), "status": results[idx]["status"]})
    expected_probes = getattr(check, "expected_probes", [])
    never = [p for p in expected_probes if probes.get(p, 0) == 0]
    cov = {
        "evaluations": n,
        "distinct_nontrivial": len(sigs),
        "rule": check.rule,
        "samples": samples,
        "runs_ok": status["ok"],
        "runs_violation": status["violation"],
        "runs_abandoned": status["abandoned"],
        "runs_abandoned_other_property": dict(abandoned_other),
        "runs_harness_error": status["harness_error"],
        "runs_per_backend": dict(by_backend),
        "runs_per_hour": n / wall * 3600 if wall > 0 else 0,
        "seeds_per_hour": n / wall * 3600 if wall > 0 else 0,
        "steps_executed": steps,
        "simulated_seconds": sim_us / 1e6,
        "sql_statements_traced": stmts,
        "clock_reads_by_code_under_test": clock_reads,
        "fault_and_probe_counters": dict(sorted(probes.items())),
        "faults_injected": {k: v for k, v in sorted(probes.items()) if k.startswith(("fault_", "restart_", "rejected_op", "crash_", "mutate_", "sibling_", "other_store", "insert_through_stale", "observation_deferred", "event_observation_deferred"))},
        "probes_never_hit": never,
        "distinct_interleavings": len(inter),
        "determinism_rechecked_runs": len(second),
        "stopped_early_wall_cap": stopped_early,
        "workers": nj,
        "reported": reported,
        "real_components": check.real_components,
        "stub_components": check.stub_components,
        "clock_seam_names": list(seams.PATCHED_NAMES),
    }
    for k, v in extra.items():
        cov[k] = v
    cov.update(check.extra_evidence({"probes": probes, "results": results}))
    return {
        "property_id": check.prop,
        "tier": tier,
        "seed": seed,
        "level": check.level,
        "coverage": cov,
        "assumptions": check.assumptions,
        "wall_s": round(wall, 2),
        "violations": sum(1 for r in reported if "violation" in r),
    }


def write_evidence(check, agg):
    d = os.path.join(out_dir(), "evidence")
    os.makedirs(d, exist_ok=True)
    with open(os.path.join(d, "%s.json" % check.prop), "w") as f:
        json.dump(agg, f, indent=1, default=repr, sort_keys=True)
