"""One integer decides everything: named sub-streams derived by hashing."""
import hashlib
import random


def derive(*parts):
    h = hashlib.sha256()
    for p in parts:
        h.update(str(p).encode())
        h.update(b"\x00")
    return int.from_bytes(h.digest()[:8], "big")


def stream(seed, label):
    return random.Random(derive(seed, label))


class Streams:
    """Named independent PRNG streams of one run."""

    def __init__(self, seed):
        self.seed = seed
        self._s = {}

    def __getitem__(self, label):
        r = self._s.get(label)
        if r is None:
            r = self._s[label] = stream(self.seed, label)
        return r
