"""Harness self tests.

  determinism   same seeds in fresh interpreters under different PYTHONHASHSEED and worker
                counts must give identical event-log digests
  crashstub     the in-process file-snapshot crash stub is compared with REAL process death:
                a forked child replays the same steps and SIGKILLs / os._exit()s itself at
                statement k; the parent reopens the child's real file
"""
import json
import os
import shutil
import subprocess
import sys
import time

from . import seams
from .runner import VERIF, DEFAULT_SEED

ALL = ["C01", "C02", "C03", "C04", "C05", "C06", "C07", "C12", "C14", "C18", "C20"]


def digests(check_name, n, seed=DEFAULT_SEED):
    from checks import load

    seams.import_repo()
    c = load(check_name)
    out = []
    for i in range(n):
        run = c.gen(seed, i, "quick")
        res = c.execute(run, os.path.join(seams.SCRATCH_ROOT, "d%d" % i))
        out.append([res["status"], res["digest"]])
    return out


def determinism(names=None, n=48):
    names = names or ALL
    bad = 0
    for name in names:
        outs = []
        for hs in ("1", "424242"):
            env = dict(os.environ, PYTHONHASHSEED=hs)
            p = subprocess.run([sys.executable, os.path.join(VERIF, "check.py"), "selftest", "digests:%s:%d" % (name, n)], capture_output=True, text=True, env=env, timeout=900)
            if p.returncode != 0:
                print("selftest determinism %s: subprocess failed:\n%s" % (name, (p.stdout + p.stderr)[-1500:]))
                bad += 1
                outs.append(None)
                continue
            outs.append(json.loads(p.stdout.strip().splitlines()[-1]))
        if None in outs:
            continue
        diff = [i for i, (a, b) in enumerate(zip(*outs)) if a != b]
        print("selftest determinism %s: %d runs x 2 interpreters (PYTHONHASHSEED 1 / 424242): %s" % (name, n, "identical" if not diff else "DIFFER at runs %s" % diff[:10]), flush=True)
        bad += bool(diff)
    return 1 if bad else 0


def crashstub(nruns=24, kills_per_run=6, seed=DEFAULT_SEED):
    """Compare snapshot-stub dumps with what a really killed process leaves behind."""
    import random

    from checks import load
    from .world import World

    seams.import_repo()
    c = load("C06")
    rng = random.Random(seed)
    compared = disagreements = 0
    modes = {"kill": 0, "exit": 0}
    t0 = time.time()
    for i in range(nruns):
        run = c.gen(seed, i, "quick")
        if len(run["steps"]) > 80:
            continue
        run = dict(run, density=1.0)
        base = os.path.join(seams.SCRATCH_ROOT, "stub-%d" % i)
        # parent: in-process run with the stub, keep per-point dumps
        seams.CLOCK.reset()
        seams.STMT.reset()
        w = c.make_world(run, os.path.join(base, "parent"))
        w.strict = False
        try:
            w.open()
            for k, step in enumerate(run["steps"]):
                w.cur_step = k
                w.exec_op(step)
            w.finish()
        except Exception as e:  # abandoned runs etc.: nothing to compare
            try:
                w.close(clean=False)
            except Exception:
                pass
            seams.STMT.reset()
            shutil.rmtree(base, ignore_errors=True)
            continue
        seams.STMT.reset()
        pts = [p for p in w.evaluated if p["kind"] == "stmt"]
        if not pts:
            shutil.rmtree(base, ignore_errors=True)
            continue
        for p in rng.sample(pts, min(kills_per_run, len(pts))):
            mode = rng.choice(["kill", "kill", "exit"])
            cdir = os.path.join(base, "child-%d" % p["gstmt"])
            pid = os.fork()
            if pid == 0:
                try:
                    seams.CLOCK.reset()
                    seams.STMT.reset()
                    cw = c.make_world(run, cdir)
                    cw.strict = False
                    cw.kill_at = (p["gstmt"], mode)
                    cw.open()
                    for k, step in enumerate(run["steps"]):
                        cw.cur_step = k
                        cw.exec_op(step)
                finally:
                    os._exit(3)  # must not get here before the kill point
            _, status = os.waitpid(pid, 0)
            died = (os.WIFSIGNALED(status) and os.WTERMSIG(status) == 9) or (os.WIFEXITED(status) and os.WEXITSTATUS(status) == 0)
            if not died:
                print("selftest crashstub: child for run %d stmt %d did not die at the kill point (status %r)" % (i, p["gstmt"], status))
                disagreements += 1
                continue
            modes[mode] += 1
            rw = World(run["backend"], cdir)
            rw.path = os.path.join(cdir, "db-%d.sqlite" % p["gen"])
            rw.open()
            real = rw.dump()
            rw.close(clean=False)
            compared += 1
            if real != p["dump"]:
                disagreements += 1
                print("selftest crashstub: DISAGREEMENT run %d backend %s stmt %d (%s): stub %s real %s" % (i, run["backend"], p["gstmt"], mode, {b: len(v["events"]) for b, v in p["dump"].items()}, {b: len(v["events"]) for b, v in real.items()}))
        shutil.rmtree(base, ignore_errors=True)
    print("selftest crashstub: %d real process deaths (SIGKILL %d, os._exit %d) compared with the snapshot stub, %d disagreements, %.1fs" % (compared, modes["kill"], modes["exit"], disagreements, time.time() - t0), flush=True)
    return (1 if disagreements or compared == 0 else 0), compared, disagreements


def main(arg):
    if arg.startswith("digests:"):
        _, name, n = arg.split(":")
        print(json.dumps(digests(name, int(n))))
        return 0
    rc = 0
    if arg in ("determinism", "all"):
        rc |= determinism()
    if arg in ("crashstub", "all"):
        rc |= crashstub()[0]
    if arg.startswith("determinism:"):
        rc |= determinism([arg.split(":")[1]])
    return 2 if rc else 0
