"""Seams: everything the simulator owns.

* repo import from VERIF_REPO (default /repo) -- "rebuild" == "import the working tree"
* private scratch home (XDG_*), never the user's real data dir
* virtual clock facade rebound over module-level datetime/time names of every aw_* module
* sqlite3.connect wrapper installing a per-connection statement trace callback
"""
import atexit
import datetime as _dtmod
import logging
import os
import shutil
import sqlite3
import sys
import time as _timemod
import types

REPO = os.environ.get("VERIF_REPO", "/repo")
_real_dt = _dtmod.datetime
_real_connect = sqlite3.connect

SCRATCH_ROOT = None


# --------------------------------------------------------------------------
# scratch home
# --------------------------------------------------------------------------
def _pick_scratch_base():
    for base in ("/dev/shm", os.environ.get("TMPDIR") or "/tmp"):
        if os.path.isdir(base) and os.access(base, os.W_OK):
            return base
    raise RuntimeError("no writable scratch base")


def setup_scratch():
    """Create the per-process scratch root and point every XDG dir at it."""
    global SCRATCH_ROOT
    if SCRATCH_ROOT and os.path.isdir(SCRATCH_ROOT) and SCRATCH_ROOT.endswith(str(os.getpid())):
        return SCRATCH_ROOT
    base = _pick_scratch_base()
    _reap_stale(base)
    SCRATCH_ROOT = os.path.join(base, "awsim-%d" % os.getpid())
    shutil.rmtree(SCRATCH_ROOT, ignore_errors=True)
    os.makedirs(SCRATCH_ROOT)
    home = os.path.join(SCRATCH_ROOT, "home")
    os.makedirs(home)
    set_home(home)
    atexit.register(_cleanup, SCRATCH_ROOT, os.getpid())
    return SCRATCH_ROOT


def _reap_stale(base):
    """Remove scratch roots left behind by killed runs (their owner pid is gone)."""
    try:
        names = os.listdir(base)
    except OSError:
        return
    for n in names:
        if not n.startswith("awsim-"):
            continue
        try:
            pid = int(n.split("-", 1)[1])
        except ValueError:
            continue
        if pid == os.getpid() or os.path.exists("/proc/%d" % pid):
            continue
        shutil.rmtree(os.path.join(base, n), ignore_errors=True)


def _cleanup(path, pid):
    if os.getpid() == pid:
        shutil.rmtree(path, ignore_errors=True)


def set_home(home):
    os.makedirs(home, exist_ok=True)
    os.environ["HOME"] = home
    os.environ["XDG_DATA_HOME"] = os.path.join(home, "data")
    os.environ["XDG_CONFIG_HOME"] = os.path.join(home, "config")
    os.environ["XDG_CACHE_HOME"] = os.path.join(home, "cache")
    os.environ["XDG_STATE_HOME"] = os.path.join(home, "state")


def assert_in_scratch(path):
    p = os.path.realpath(path)
    if not SCRATCH_ROOT or not p.startswith(os.path.realpath(SCRATCH_ROOT) + os.sep):
        raise RuntimeError("refusing to touch path outside scratch: %s" % path)


# --------------------------------------------------------------------------
# virtual clock
# --------------------------------------------------------------------------
class SimClock:
    """One integer of simulated microseconds since the epoch."""

    def __init__(self):
        self.real = False
        self.reads = 0
        self.us = 1_700_000_000_000_000
        self.local_offset_us = 0  # the simulated host's UTC offset (naive now() is local time)

    def reset(self, us=1_700_000_000_000_000):
        self.us = us
        self.reads = 0
        self.local_offset_us = 0
        if self.real:
            set_real_tz(0)
        self.real = False

    def set_local_offset(self, off_min):
        self.local_offset_us = off_min * 60_000_000
        if self.real:
            set_real_tz(off_min)

    def advance(self, us):
        if self.real:
            if us > 0:
                _timemod.sleep(min(us, 11_500_000) / 1_000_000)
            return
        self.us += us

    def peek(self):
        """Current instant for the harness itself (not counted as a read by code under test)."""
        if self.real:
            return int(_timemod.time() * 1_000_000)
        return self.us

    def now_us(self):
        self.reads += 1
        if self.real:
            return int(_timemod.time() * 1_000_000)
        return self.us


CLOCK = SimClock()
_EPOCH = _real_dt(1970, 1, 1, tzinfo=_dtmod.timezone.utc)


def set_real_tz(off_min):
    """Real-clock runs: give the process the same host time zone the simulated host had."""
    if not off_min:
        os.environ["TZ"] = "UTC"
    else:
        m = -off_min  # POSIX sign convention: XXX5 is UTC-5
        os.environ["TZ"] = "XXX%s%d:%02d" % ("-" if m < 0 else "", abs(m) // 60, abs(m) % 60)
    _timemod.tzset()


def _sim_now(tz=None):
    if CLOCK.real:
        CLOCK.reads += 1
        return _real_dt.now(tz)
    us = CLOCK.now_us()
    aware = _EPOCH + _dtmod.timedelta(microseconds=us)
    if tz is None:
        # naive local time of the simulated host
        return (aware + _dtmod.timedelta(microseconds=CLOCK.local_offset_us)).replace(tzinfo=None)
    return aware.astimezone(tz)


def _sim_utcnow():
    if CLOCK.real:
        CLOCK.reads += 1
        return _real_dt.now(_dtmod.timezone.utc).replace(tzinfo=None)
    us = CLOCK.now_us()
    return (_EPOCH + _dtmod.timedelta(microseconds=us)).replace(tzinfo=None)


class _DTMeta(type):
    def __instancecheck__(cls, obj):
        return isinstance(obj, _real_dt)

    def __subclasscheck__(cls, sub):
        return issubclass(sub, _real_dt)

    def __getattr__(cls, name):
        return getattr(_real_dt, name)

    def __call__(cls, *a, **k):
        return _real_dt(*a, **k)


class SimDatetime(metaclass=_DTMeta):
    """Stands in for the ``datetime`` class inside aw_* modules."""

    @staticmethod
    def now(tz=None):
        return _sim_now(tz)

    @staticmethod
    def utcnow():
        return _sim_utcnow()

    @staticmethod
    def today():
        return _sim_now(None)


class _ModProxy(types.ModuleType):
    def __init__(self, real, overrides):
        super().__init__(real.__name__)
        self.__dict__["_real"] = real
        self.__dict__["_over"] = overrides

    def __getattr__(self, name):
        ov = self.__dict__["_over"]
        if name in ov:
            return ov[name]
        return getattr(self.__dict__["_real"], name)


def _sim_time():
    return CLOCK.now_us() / 1_000_000


def _sim_time_ns():
    return CLOCK.now_us() * 1000


def _sim_sleep(s):
    CLOCK.advance(int(s * 1_000_000))


_DT_PROXY = _ModProxy(_dtmod, {"datetime": SimDatetime})
_TIME_PROXY = _ModProxy(
    _timemod,
    {
        "time": _sim_time,
        "monotonic": _sim_time,
        "perf_counter": _sim_time,
        "time_ns": _sim_time_ns,
        "monotonic_ns": _sim_time_ns,
        "sleep": _sim_sleep,
    },
)

PATCHED_NAMES = []


def patch_clock():
    """Rebind every global of every aw_* module that *is* the datetime class, the
    datetime module or the time module.  Adaptive: survives import-style refactors."""
    del PATCHED_NAMES[:]
    for name in sorted(sys.modules):
        mod = sys.modules[name]
        if mod is None or not name.startswith("aw_"):
            continue
        for g in sorted(vars(mod)):
            v = vars(mod)[g]
            if v is _real_dt:
                setattr(mod, g, SimDatetime)
                PATCHED_NAMES.append("%s.%s" % (name, g))
            elif v is _dtmod:
                setattr(mod, g, _DT_PROXY)
                PATCHED_NAMES.append("%s.%s" % (name, g))
            elif v is _timemod:
                setattr(mod, g, _TIME_PROXY)
                PATCHED_NAMES.append("%s.%s" % (name, g))
    return PATCHED_NAMES


# --------------------------------------------------------------------------
# SQL statement seam
# --------------------------------------------------------------------------
class StmtHook:
    """Receives every SQL statement of every connection opened through sqlite3.connect."""

    def __init__(self):
        self.count = 0  # statements seen since reset (live connections only)
        self.callback = None  # callable(sql, path) or None
        self.enabled = True

    def reset(self):
        self.count = 0
        self.callback = None
        self.enabled = True
        COMMIT_FAULTS.reset()


STMT = StmtHook()


def _make_trace(path):
    def _trace(sql):
        if not STMT.enabled:
            return
        STMT.count += 1
        cb = STMT.callback
        if cb is not None:
            cb(sql, path)

    return _trace


class CommitFaults:
    """Fault injection at the connection seam: the next n commit() calls on the armed path fail with a
    retryable error, as they do when another process holds the database lock."""

    def __init__(self):
        self.reset()

    def reset(self):
        self.path = None
        self.pending = 0
        self.fired = 0

    def arm(self, path, n=1):
        self.path = path
        self.pending = n


COMMIT_FAULTS = CommitFaults()


class FaultConn(sqlite3.Connection):
    """sqlite3.Connection whose commit() can be made to fail by the simulator."""

    _sim_path = None

    def commit(self):
        f = COMMIT_FAULTS
        if f.pending > 0 and f.path is not None and f.path == self._sim_path:
            f.pending -= 1
            f.fired += 1
            raise sqlite3.OperationalError("database is locked")
        return super().commit()


def _sim_connect(database, *a, **k):
    if "factory" not in k and len(a) < 5:
        k["factory"] = FaultConn
    conn = _real_connect(database, *a, **k)
    if isinstance(conn, FaultConn) and isinstance(database, (str, bytes, os.PathLike)):
        conn._sim_path = os.fsdecode(database)
    try:
        if isinstance(database, (str, bytes, os.PathLike)):
            p = os.fsdecode(database)
            if p != ":memory:" and not p.startswith("file:"):
                assert_in_scratch(p)
            conn.set_trace_callback(_make_trace(p))
    except RuntimeError:
        conn.close()
        raise
    return conn


def patch_sqlite():
    sqlite3.connect = _sim_connect
    sqlite3.dbapi2.connect = _sim_connect


# --------------------------------------------------------------------------
# repo import
# --------------------------------------------------------------------------
_IMPORTED = False


def import_repo():
    """Import the code under test from REPO's working tree and install all seams."""
    global _IMPORTED
    if _IMPORTED:
        return
    setup_scratch()
    logging.disable(logging.CRITICAL)
    import warnings

    warnings.simplefilter("ignore")
    if REPO not in sys.path:
        sys.path.insert(0, REPO)
    patch_sqlite()
    import aw_core  # noqa
    import aw_core.config  # noqa
    import aw_core.dirs  # noqa
    import aw_core.models  # noqa
    import aw_datastore  # noqa
    import aw_datastore.datastore  # noqa
    import aw_datastore.migration  # noqa
    import aw_datastore.storages  # noqa
    import aw_query  # noqa
    import aw_query.query2  # noqa
    import aw_query.functions  # noqa
    import aw_transform  # noqa

    got = os.path.realpath(os.path.dirname(os.path.dirname(aw_core.__file__)))
    if got != os.path.realpath(REPO):
        raise RuntimeError("aw_core imported from %s, expected %s" % (got, REPO))
    patch_clock()
    _IMPORTED = True


def after_fork():
    """Call in a forked worker: own scratch root (pid-specific)."""
    global SCRATCH_ROOT
    SCRATCH_ROOT = None
    setup_scratch()
