"""Generators of step arguments.  Pure functions of a PRNG stream."""

BASE_US = 1_600_000_000_000_000  # 2020-09-13, comfortably in the past of the simulated clock
Y1970 = 0
Y2100 = 4_102_444_800_000_000
DAY = 86_400_000_000

_WORDS = ["a", "b", "c", "x", "afk", "not-afk", "título", "日本語", 'q"uote', "it's", "back\\slash", "tab\there", "", " ", "🙂", "é", "cut mid-emoji \ud83d", "007", "cafe\u0301"]
_KEYS = ["app", "title", "status", "url", "k", "ключ", "a b", "$x", "nested", "n"]


def lattice(r):
    """A per-run time lattice: coarse lattices make ties of instants likely."""
    step = r.choice([1_000, 250_000, 1_000_000, 1_000_000, 5_000_000, 60_000_000])
    n = r.choice([3, 6, 12, 40, 400])
    base = BASE_US + r.randrange(0, 1000) * 1_000_000
    return {"base": base, "step": step, "n": n}


def lat_ts(r, lat):
    return lat["base"] + lat["step"] * r.randrange(0, lat["n"] + 1)


def lat_dur(r, lat):
    c = r.random()
    if c < 0.3:
        return 0
    if c < 0.9:
        return lat["step"] * r.randrange(0, 5)
    return r.randrange(0, 4 * lat["step"] + 1)


def offset(r):
    c = r.random()
    if c < 0.6:
        return 0
    return r.choice([-720, -660, -330, -60, 60, 120, 330, 345, 540, 765, 840, 1, -1, 839, -839])


def wild_ts(r):
    c = r.random()
    if c < 0.15:
        return r.choice([0, 1, 999, 1000, Y2100 - 1, Y2100 - 1000, Y2100 - DAY, 951_782_400_000_000])
    if c < 0.4:
        # microsecond products that are not exactly representable / ms boundaries
        s = r.randrange(0, Y2100 // 1_000_000)
        return s * 1_000_000 + r.choice([1, 999, 1000, 1001, 499_999, 500_000, 500_001, 999_000, 999_001, 999_999])
    return r.randrange(Y1970, Y2100)


def wild_dur(r):
    c = r.random()
    if c < 0.2:
        return 0
    if c < 0.4:
        return r.choice([1, 999, 1000, 1001, 999_999, 1_000_000, 1_000_001, DAY, DAY - 1, 30 * DAY])
    if c < 0.7:
        return r.randrange(0, 10_000_000)
    return r.randrange(0, 30 * DAY + 1)


def json_scalar(r):
    c = r.random()
    if c < 0.3:
        return r.choice(_WORDS)
    if c < 0.45:
        return r.randrange(-5, 100)
    if c < 0.55:
        return r.choice([0.5, -1.25, 1e-7, 3.141592653589793, 1e21, 2.0, 0.1, 123456789.125])
    if c < 0.62:
        return None
    if c < 0.72:
        return r.choice([True, False])
    if c < 0.8:
        return r.choice([2**53 + 1, 2**63, -(2**63) - 1, 10**30])
    if c < 0.84:
        # window titles and URLs are long
        return r.choice(["x" * 81, "https://example.org/" + "path/" * 60 + "?q=é", "t" * 5000])
    return "".join(r.choice("abcXYZ 0189_-/.:é\"'\\{}[],=;\n") for _ in range(r.randrange(0, 12)))


def json_value(r, depth=0):
    c = r.random()
    if depth >= 3 or c < 0.6:
        return json_scalar(r)
    if c < 0.8:
        return [json_value(r, depth + 1) for _ in range(r.randrange(0, 4))]
    return {r.choice(_KEYS): json_value(r, depth + 1) for _ in range(r.randrange(0, 4))}


def wild_data(r):
    return {r.choice(_KEYS): json_value(r, 1) for _ in range(r.randrange(0, 4))}


def small_data(r, alphabet=3):
    c = r.random()
    if c < 0.1:
        return {}
    if c < 0.16:
        return {"app": "abcdefgh"[r.randrange(0, alphabet)], "title": r.choice([None, ""])}
    if c < 0.24:
        # equal as JSON values, not as text: key order and 3 vs 3.0
        a = "abcdefgh"[r.randrange(0, alphabet)]
        return r.choice([{"app": a, "n": 3}, {"n": 3, "app": a}, {"app": a, "n": 3.0}])
    return {"app": "abcdefgh"[r.randrange(0, alphabet)]}


def event(r, lat, wild=False, alphabet=3, uid=None):
    if wild:
        E = {"ts": wild_ts(r), "off": offset(r), "dur": wild_dur(r), "data": wild_data(r)}
        if E["ts"] + E["dur"] > Y2100:
            E["dur"] = max(0, Y2100 - E["ts"])
    else:
        E = {"ts": lat_ts(r, lat), "off": offset(r) if r.random() < 0.3 else 0, "dur": lat_dur(r, lat), "data": small_data(r, alphabet)}
    if uid is not None:
        E["data"] = dict(E["data"], u=uid)
    return E


def meta(r, wild=True):
    m = {
        "type": r.choice(["currentwindow", "afkstatus", "web.tab.current", "тип", "t y p e"]),
        "client": r.choice(["aw-watcher-window", "aw-watcher-afk", "cliënt", "c"]),
        "hostname": r.choice(["host1", "host2", "höst", "h", "Erik-Desktop.LAN"]),
        "created_us": (wild_ts(r) if wild else BASE_US + r.randrange(0, 10**9) * 1000) // 1000 * 1000,
        "off": offset(r),
    }
    c = r.random()
    if c < 0.5:
        m["name"] = r.choice(["A name", "nämé", "n", "bucket name with spaces", "007", "2021", "1e3", "b0", "b1", "ghost", "tmp"])  # some names equal bucket ids
    if r.random() < 0.5:
        m["data"] = {r.choice(_KEYS): json_value(r, 1) for _ in range(r.randrange(1, 3))}
    return m


BUCKET_IDS = ["b0", "b1", "b2", "b3"]
UNICODE_BUCKET_IDS = ["aw-watcher-window_Zoë's-laptop", "b/ü#1", "б2", "cafe\u0301 b 3"]  # the last one is not NFC-normalised
GLOB_BUCKET_IDS = ["scratch[1]", "scratch1", "a?", "aw-watcher-window_{hostname}"]  # ids that read as fnmatch patterns of each other
CASE_BUCKET_IDS = ["aw-watcher-afk_Laptop", "aw-watcher-afk_laptop", "AW-WATCHER-AFK_LAPTOP", "b0"]  # differ only in case


def bucket_ids(r, n, unicode_ok=False):
    pool = list(BUCKET_IDS)
    if unicode_ok:
        x = r.random()
        if x < 0.35:
            pool = list(UNICODE_BUCKET_IDS)
        elif x < 0.5:
            pool = list(CASE_BUCKET_IDS)
        elif x < 0.6:
            pool = list(GLOB_BUCKET_IDS)
    return pool[:n]
